//go:build verif

package controller

import (
	"os"
	"strconv"
	"time"

	"github.com/markusressel/fan2go/internal/fans"
)

// Accessors for the verification harness. They only expose what the
// in-package unit tests already reach through struct literals.

var VerifTimescale = 1

func init() {
	if s := os.Getenv("FAN2GO_VERIF_TIMESCALE"); s != "" {
		if n, err := strconv.Atoi(s); err == nil && n >= 1 {
			VerifTimescale = n
		}
	}
}

// verifSleep replaces time.Sleep in controller.go in the verification build.
func verifSleep(d time.Duration) {
	time.Sleep(d / time.Duration(VerifTimescale))
}

func (f *DefaultFanController) VerifSetPwmMap(m map[int]int) {
	f.pwmMap = m
	f.updateDistinctPwmValues()
}

func (f *DefaultFanController) VerifPwmMap() map[int]int { return f.pwmMap }

func (f *DefaultFanController) VerifDistinct() []int { return f.pwmValuesWithDistinctTarget }

func (f *DefaultFanController) VerifLastSetPwm() (int, bool) {
	if f.lastSetPwm == nil {
		return 0, false
	}
	return *f.lastSetPwm, true
}

func (f *DefaultFanController) VerifSetLastSetPwm(v int) { f.lastSetPwm = &v }

func (f *DefaultFanController) VerifClearLastSetPwm() { f.lastSetPwm = nil }

func (f *DefaultFanController) VerifCalculateTargetPwm() (int, error) {
	return f.calculateTargetPwm()
}

func (f *DefaultFanController) VerifSetPwm(target int) error { return f.setPwm(target) }

func (f *DefaultFanController) VerifMeasureRpm() { f.measureRpm(f.fan) }

func (f *DefaultFanController) VerifComputePwmMap() error { return f.computePwmMap() }

func (f *DefaultFanController) VerifRestore() { f.restorePwmEnabled() }

func (f *DefaultFanController) VerifSetOriginal(mode int, pwm int) {
	f.originalPwmEnabled = fans.ControlMode(mode)
	f.originalPwmValue = pwm
}
