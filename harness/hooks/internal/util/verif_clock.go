//go:build verif

package util

import "time"

// VerifNow replaces time.Now in pid.go (mechanical rewrite done on the scratch
// copy by the verification build). The harness swaps it for a virtual clock.
var VerifNow = time.Now
