//go:build verif

package util

import (
	"time"
	"encoding/json"
	"fmt"
	"io/fs"
	"os"
	"strconv"
	"strings"
	"sync"
	"syscall"
)

// The three integer file accessors of file.go are renamed to ...Orig by the
// verification build; the wrappers below consult VerifDriver first. With a nil
// driver they are straight pass-throughs.

type VerifEvent struct {
	Seq    int64  `json:"seq"`
	Op     string `json:"op"` // "r" | "w"
	Path   string `json:"path"`
	Val    int    `json:"val"`
	Err    string `json:"err,omitempty"`
	Action string `json:"action,omitempty"` // rule action applied, if any
}

type VerifRule struct {
	Path   string `json:"path"`
	Op     string `json:"op"`     // "r" | "w"
	From   int    `json:"from"`   // first matching operation the rule applies to (1-based; 0 = 1)
	To     int    `json:"to"`     // last one (0 = forever)
	Action string `json:"action"` // fail | fail-atomic | ignore | content | stick
	Errno  string `json:"errno,omitempty"`
	Raw    string `json:"raw,omitempty"` // content for action "content"
	Val    int    `json:"val,omitempty"` // value stored instead for action "stick"; number of levels for action "quant"
	IfVal    *int `json:"ifVal,omitempty"`    // writes only: the rule applies only to writes of this value
	IfNotVal *int `json:"ifNotVal,omitempty"` // writes only: the rule applies only to writes of another value
	DelayMs  int  `json:"delayMs,omitempty"`  // action "fail" on writes: the error arrives after this many milliseconds (a device that takes its time to refuse)
	Count    int  `json:"-"`
}

// verifQuant maps a value to the nearest of n evenly spaced levels in 0..255 (idempotent).
func verifQuant(v int, n int) int {
	if n < 2 {
		return v
	}
	best, bd := 0, 1<<30
	for i := 0; i < n; i++ {
		l := i * 255 / (n - 1)
		d := l - v
		if d < 0 {
			d = -d
		}
		if d < bd {
			bd, best = d, l
		}
	}
	return best
}

// VerifPlant computes the content of an RPM input file from the PWM file.
type VerifPlant struct {
	RpmPath    string `json:"rpmPath"`
	PwmPath    string `json:"pwmPath"`
	EnablePath string `json:"enablePath,omitempty"`
	Kind       string `json:"kind"` // linear | threshold | never | plateau | const
	Theta      int    `json:"theta"`
	MaxRpm     int    `json:"maxRpm"`
	MaxEff     int    `json:"maxEff"`
	Const      int    `json:"const"`
}

func (p *VerifPlant) Rpm(pwm int) int {
	if pwm < 0 {
		pwm = 0
	}
	if pwm > 255 {
		pwm = 255
	}
	switch p.Kind {
	case "never":
		return 0
	case "const":
		return p.Const
	case "threshold":
		if pwm < p.Theta {
			return 0
		}
		return 200 + pwm*p.MaxRpm/255
	case "plateau":
		if pwm < p.Theta {
			return 0
		}
		e := pwm
		if e > p.MaxEff {
			e = p.MaxEff
		}
		return 200 + e*p.MaxRpm/255
	default: // linear
		return pwm * p.MaxRpm / 255
	}
}

type VerifDriverT struct {
	Mu      sync.Mutex
	Mem     map[string]string
	Rules   []*VerifRule
	Plants  map[string]*VerifPlant
	KeepLog bool
	Log     []VerifEvent
	LogFile *os.File
	Seq     int64
	Hook    func(ev *VerifEvent)
	memOps  uint64
	RealOps uint64 // accesses to in-memory devices that went through the real accessor
}

var VerifDriver *VerifDriverT

func verifErrno(name string) error {
	switch name {
	case "EACCES":
		return syscall.EACCES
	case "EINVAL":
		return syscall.EINVAL
	case "ENOENT":
		return syscall.ENOENT
	case "EBUSY":
		return syscall.EBUSY
	case "ENODEV":
		return syscall.ENODEV
	default:
		return syscall.EIO
	}
}

func verifParse(text string, path string) (int, error) {
	if len(text) <= 0 {
		return -1, fmt.Errorf("file is empty: %s", path)
	}
	text = strings.TrimSpace(text)
	return strconv.Atoi(text)
}

var verifScratch string

// VerifScratchDir: where the scratch file of verifParseReal/memStore lives (harness work directory; for the daemon
// FAN2GO_VERIF_SCRATCH_DIR); default /dev/shm
var VerifScratchDir = os.Getenv("FAN2GO_VERIF_SCRATCH_DIR")

// verifParseReal writes the content to a scratch file and lets the original ReadIntFromFile read it.
func verifScratchReady() bool {
	if verifScratch == "" {
		dir := VerifScratchDir
		if dir == "" {
			dir = "/dev/shm"
		}
		if st, err := os.Stat(dir); err != nil || !st.IsDir() {
			dir = os.TempDir()
		}
		f, err := os.CreateTemp(dir, "fan2go-verif-content-")
		if err != nil {
			return false
		}
		verifScratch = f.Name()
		_ = f.Close()
	}
	return true
}

func verifParseReal(text string, path string) (int, error) {
	if !verifScratchReady() {
		return verifParse(text, path)
	}
	if err := os.WriteFile(verifScratch, []byte(text), 0644); err != nil {
		return verifParse(text, path)
	}
	return ReadIntFromFileOrig(verifScratch)
}

// must be called with d.Mu held
func (d *VerifDriverT) match(op string, path string, value int) *VerifRule {
	var hit *VerifRule
	for _, r := range d.Rules {
		if r.Op != op || r.Path != path {
			continue
		}
		if op == "w" && ((r.IfVal != nil && *r.IfVal != value) || (r.IfNotVal != nil && *r.IfNotVal == value)) {
			continue
		}
		r.Count++
		from := r.From
		if from <= 0 {
			from = 1
		}
		if r.Count >= from && (r.To == 0 || r.Count <= r.To) && hit == nil {
			hit = r
		}
	}
	return hit
}

func (d *VerifDriverT) record(ev VerifEvent) {
	d.Seq++
	ev.Seq = d.Seq
	if d.KeepLog {
		d.Log = append(d.Log, ev)
	}
	if d.LogFile != nil {
		b, _ := json.Marshal(ev)
		_, _ = d.LogFile.Write(append(b, '\n'))
	}
	if d.Hook != nil {
		d.Hook(&ev)
	}
}

// VerifRealEvery: every n-th access to a device held in memory goes through the repository's real accessor
// (ReadIntFromFile parses the content the way sysfs presents it, "<n>\n"; WriteIntToFile produces the bytes that
// are stored), so that util/file.go itself is on the path of the in-process checks. 0 = never.
var VerifRealEvery = 16

func (d *VerifDriverT) rawRead(path string) (int, error) {
	if c, ok := d.Mem[path]; ok {
		d.memOps++
		if VerifRealEvery > 0 && d.memOps%uint64(VerifRealEvery) == 0 {
			d.RealOps++
			if c != "" && !strings.HasSuffix(c, "\n") {
				c += "\n"
			}
			return verifParseReal(c, path)
		}
		return verifParse(c, path)
	}
	return ReadIntFromFileOrig(path)
}

// memStore: the bytes a write leaves in a device held in memory. Every n-th write is made by the real writer on a
// regular file that holds the device's current content (what a file fan, or a hwmon fan on a fake sysfs tree, is).
func (d *VerifDriverT) memStore(old string, value int, atomicWrite bool) string {
	d.memOps++
	if VerifRealEvery > 0 && d.memOps%uint64(VerifRealEvery) == 0 && verifScratchReady() {
		err := os.WriteFile(verifScratch, []byte(old), 0644)
		if err != nil {
			return strconv.Itoa(value)
		}
		if atomicWrite {
			err = WriteIntToFileAtomicOrig(value, verifScratch)
		} else {
			err = WriteIntToFileOrig(value, verifScratch)
		}
		if err == nil {
			if b, rerr := os.ReadFile(verifScratch); rerr == nil {
				d.RealOps++
				return string(b)
			}
		}
	}
	return strconv.Itoa(value)
}

func (d *VerifDriverT) read(path string) (value int, err error) {
	d.Mu.Lock()
	defer d.Mu.Unlock()
	ev := VerifEvent{Op: "r", Path: path}
	rule := d.match("r", path, 0)
	switch {
	case rule != nil && rule.Action == "fail":
		value, err = -1, &fs.PathError{Op: "open", Path: path, Err: verifErrno(rule.Errno)}
		ev.Action = "fail"
	case rule != nil && rule.Action == "content":
		// the injected bytes are parsed by the real accessor, not by a copy of its parsing code
		value, err = verifParseReal(rule.Raw, path)
		ev.Action = "content"
	default:
		if p, ok := d.Plants[path]; ok {
			pwm, perr := d.rawRead(p.PwmPath)
			if perr != nil {
				pwm = 0
			}
			if p.EnablePath != "" {
				if mode, merr := d.rawRead(p.EnablePath); merr == nil && mode != 1 {
					pwm = 255
				}
			}
			value, err = p.Rpm(pwm), nil
		} else {
			value, err = d.rawRead(path)
		}
	}
	ev.Val = value
	if err != nil {
		ev.Err = err.Error()
	}
	d.record(ev)
	return value, err
}

func (d *VerifDriverT) write(value int, path string, atomicWrite bool) (err error) {
	d.Mu.Lock()
	defer d.Mu.Unlock()
	ev := VerifEvent{Op: "w", Path: path, Val: value}
	rule := d.match("w", path, value)
	store := value
	switch {
	case rule != nil && (rule.Action == "fail" || (rule.Action == "fail-atomic" && atomicWrite)):
		// "fail-atomic": the file cannot be replaced (bind mount, directory without create permission) but written in place
		err = &fs.PathError{Op: "write", Path: path, Err: verifErrno(rule.Errno)}
		ev.Action = "fail"
		if rule.DelayMs > 0 {
			d.Mu.Unlock()
			time.Sleep(time.Duration(rule.DelayMs) * time.Millisecond)
			d.Mu.Lock()
		}
	case rule != nil && rule.Action == "ignore":
		ev.Action = "ignore"
	default:
		if rule != nil && rule.Action == "stick" {
			store = rule.Val
			ev.Action = "stick"
		}
		if rule != nil && rule.Action == "quant" {
			store = verifQuant(value, rule.Val)
			ev.Action = "quant"
		}
		if _, ok := d.Mem[path]; ok {
			stored := d.memStore(d.Mem[path], store, atomicWrite)
			d.Mem[path] = stored
			if strings.TrimSpace(stored) != strconv.Itoa(store) {
				// the real writer left something else in the file: report what the device now holds
				ev.Action = "stored-differs"
				ev.Val = -1
				if n, perr := strconv.Atoi(strings.TrimSpace(stored)); perr == nil {
					ev.Val = n
				}
			}
		} else if atomicWrite {
			err = WriteIntToFileAtomicOrig(store, path)
		} else {
			err = WriteIntToFileOrig(store, path)
		}
	}
	if err != nil {
		ev.Err = err.Error()
	}
	d.record(ev)
	return err
}

func ReadIntFromFile(path string) (value int, err error) {
	if d := VerifDriver; d != nil {
		return d.read(path)
	}
	return ReadIntFromFileOrig(path)
}

func WriteIntToFile(value int, path string) error {
	if d := VerifDriver; d != nil {
		return d.write(value, path, false)
	}
	return WriteIntToFileOrig(value, path)
}

func WriteIntToFileAtomic(value int, path string) error {
	if d := VerifDriver; d != nil {
		return d.write(value, path, true)
	}
	return WriteIntToFileAtomicOrig(value, path)
}

// Process-level configuration: FAN2GO_VERIF_DRIVER names a JSON file
// {"rules": [...], "plants": [...], "log": "<path>"}.
type verifDriverFile struct {
	Rules  []*VerifRule  `json:"rules"`
	Plants []*VerifPlant `json:"plants"`
	Log    string        `json:"log"`
}

func init() {
	cfgPath := os.Getenv("FAN2GO_VERIF_DRIVER")
	if cfgPath == "" {
		return
	}
	data, err := os.ReadFile(cfgPath)
	if err != nil {
		fmt.Fprintf(os.Stderr, "verif driver: %v\n", err)
		os.Exit(97)
	}
	var cfg verifDriverFile
	if err := json.Unmarshal(data, &cfg); err != nil {
		fmt.Fprintf(os.Stderr, "verif driver: %v\n", err)
		os.Exit(97)
	}
	d := &VerifDriverT{Mem: map[string]string{}, Plants: map[string]*VerifPlant{}, Rules: cfg.Rules}
	for _, p := range cfg.Plants {
		d.Plants[p.RpmPath] = p
	}
	if cfg.Log != "" {
		f, err := os.OpenFile(cfg.Log, os.O_CREATE|os.O_WRONLY|os.O_APPEND, 0644)
		if err != nil {
			fmt.Fprintf(os.Stderr, "verif driver: %v\n", err)
			os.Exit(97)
		}
		d.LogFile = f
	}
	VerifDriver = d
}
