// Package gosensors is a pure-Go stand-in for github.com/md14454/gosensors
// (cgo bindings of libsensors), used only by the verification harness:
// libsensors is not installed in the sandbox, so the packages that import the
// real module do not compile. This stand-in offers the API subset fan2go uses
// and enumerates an hwmon class directory the way libsensors does:
//   - chips are the hwmonN directories below the root
//     ($FAN2GO_VERIF_HWMON_ROOT, default /sys/class/hwmon), in the order
//     given by an optional ORDER file in the root (one directory name per
//     line), else in lexical order;
//   - features are derived from the attribute file names (fanN_*, tempN_*,
//     inN_*, ...) and ordered by feature type, then by number - the order of
//     libsensors' sensors_read_dynamic_chip();
//   - sub-feature values are read from the files; temperatures and voltages
//     are scaled by 1/1000 as libsensors does.
package gosensors

import (
	"os"
	"path/filepath"
	"regexp"
	"sort"
	"strconv"
	"strings"
)

type SubFeatureType int32
type FeatureType int32

const (
	FeatureTypeIn       FeatureType = 0x00
	FeatureTypeFan      FeatureType = 0x01
	FeatureTypeTemp     FeatureType = 0x02
	FeatureTypePower    FeatureType = 0x03
	FeatureTypeEnergy   FeatureType = 0x04
	FeatureTypeCurr     FeatureType = 0x05
	FeatureTypeHumidity FeatureType = 0x06
	FeatureTypeUnknown  FeatureType = 0x7fffffff
)

const (
	SubFeatureTypeInInput SubFeatureType = 0<<8 + iota
	SubFeatureTypeInMin
	SubFeatureTypeInMax
)

const (
	SubFeatureTypeFanInput SubFeatureType = 1<<8 + iota
	SubFeatureTypeFanMin
	SubFeatureTypeFanMax
)
const (
	SubFeatureTypeFanAlarm SubFeatureType = 1<<8 | 0x80 + iota
	SubFeatureTypeFanFault
	SubFeatureTypeFanDiv
	SubFeatureTypeFanBeep
	SubFeatureTypeFanPulses
)

const (
	SubFeatureTypeTempInput SubFeatureType = 2<<8 + iota
	SubFeatureTypeTempMax
	SubFeatureTypeTempMaxHyst
	SubFeatureTypeTempMin
	SubFeatureTypeTempCrit
	SubFeatureTypeTempCritHyst
	SubFeatureTypeTempLCrit
	SubFeatureTypeTempEmergency
	SubFeatureTypeTempEmergencyHyst
	SubFeatureTypeTempLowest
	SubFeatureTypeTempHighest
)

const SubFeatureTypeUnknown SubFeatureType = 0x7fffffff

type subDef struct {
	suffix string
	typ    SubFeatureType
	scale  float64
}

var subDefs = map[FeatureType][]subDef{
	FeatureTypeIn: {
		{"input", SubFeatureTypeInInput, 1000}, {"min", SubFeatureTypeInMin, 1000}, {"max", SubFeatureTypeInMax, 1000},
	},
	FeatureTypeFan: {
		{"input", SubFeatureTypeFanInput, 1}, {"min", SubFeatureTypeFanMin, 1}, {"max", SubFeatureTypeFanMax, 1},
		{"alarm", SubFeatureTypeFanAlarm, 1}, {"fault", SubFeatureTypeFanFault, 1}, {"div", SubFeatureTypeFanDiv, 1},
		{"beep", SubFeatureTypeFanBeep, 1}, {"pulses", SubFeatureTypeFanPulses, 1},
	},
	FeatureTypeTemp: {
		{"input", SubFeatureTypeTempInput, 1000}, {"max", SubFeatureTypeTempMax, 1000},
		{"max_hyst", SubFeatureTypeTempMaxHyst, 1000}, {"min", SubFeatureTypeTempMin, 1000},
		{"crit", SubFeatureTypeTempCrit, 1000}, {"crit_hyst", SubFeatureTypeTempCritHyst, 1000},
		{"lcrit", SubFeatureTypeTempLCrit, 1000}, {"emergency", SubFeatureTypeTempEmergency, 1000},
		{"emergency_hyst", SubFeatureTypeTempEmergencyHyst, 1000},
		{"lowest", SubFeatureTypeTempLowest, 1000}, {"highest", SubFeatureTypeTempHighest, 1000},
	},
}

var prefixes = []struct {
	prefix string
	typ    FeatureType
}{
	{"in", FeatureTypeIn}, {"fan", FeatureTypeFan}, {"temp", FeatureTypeTemp},
	{"power", FeatureTypePower}, {"energy", FeatureTypeEnergy}, {"curr", FeatureTypeCurr},
	{"humidity", FeatureTypeHumidity},
}

type SubFeature struct {
	Name    string
	Number  int32
	Type    SubFeatureType
	Mapping int32
	Flags   uint32
	path    string
	scale   float64
}

func (s SubFeature) GetValue() float64 {
	data, err := os.ReadFile(s.path)
	if err != nil {
		return 0
	}
	v, err := strconv.ParseFloat(strings.TrimSpace(string(data)), 64)
	if err != nil {
		return 0
	}
	if s.scale == 0 {
		return v
	}
	return v / s.scale
}

type Feature struct {
	Name   string
	Number int32
	Type   FeatureType
	subs   []SubFeature
}

func (f Feature) GetSubFeatures() []SubFeature { return append([]SubFeature(nil), f.subs...) }

func (f Feature) GetLabel() string { return f.Name }

func (f Feature) GetValue() float64 {
	if len(f.subs) == 0 {
		return 0
	}
	return f.subs[0].GetValue()
}

type Bus struct {
	Type int16
	Nr   int16
}

func (b Bus) String() string { return "verif adapter" }

type Chip struct {
	Prefix string
	Bus    Bus
	Addr   int32
	Path   string
}

func (c Chip) String() string      { return c.Prefix }
func (c Chip) AdapterName() string { return c.Bus.String() }

var attrRe = regexp.MustCompile(`^([a-z]+)([0-9]+)_([a-z_]+)$`)

func (c Chip) GetFeatures() []Feature {
	entries, err := os.ReadDir(c.Path)
	if err != nil {
		return nil
	}
	type key struct {
		t FeatureType
		n int
	}
	found := map[key]map[string]bool{}
	for _, e := range entries {
		m := attrRe.FindStringSubmatch(e.Name())
		if m == nil {
			continue
		}
		var ft FeatureType = FeatureTypeUnknown
		for _, p := range prefixes {
			if p.prefix == m[1] {
				ft = p.typ
			}
		}
		if ft == FeatureTypeUnknown {
			continue
		}
		n, err := strconv.Atoi(m[2])
		if err != nil {
			continue
		}
		k := key{ft, n}
		if found[k] == nil {
			found[k] = map[string]bool{}
		}
		found[k][m[3]] = true
	}
	keys := make([]key, 0, len(found))
	for k := range found {
		keys = append(keys, k)
	}
	sort.Slice(keys, func(i, j int) bool {
		if keys[i].t != keys[j].t {
			return keys[i].t < keys[j].t
		}
		return keys[i].n < keys[j].n
	})
	var features []Feature
	var number int32
	for _, k := range keys {
		prefix := ""
		for _, p := range prefixes {
			if p.typ == k.t {
				prefix = p.prefix
			}
		}
		name := prefix + strconv.Itoa(k.n)
		f := Feature{Name: name, Type: k.t}
		var subNo int32
		for _, d := range subDefs[k.t] {
			if !found[k][d.suffix] {
				continue
			}
			f.subs = append(f.subs, SubFeature{
				Name:   name + "_" + d.suffix,
				Number: number*32 + subNo,
				Type:   d.typ,
				path:   filepath.Join(c.Path, name+"_"+d.suffix),
				scale:  d.scale,
			})
			subNo++
		}
		if len(f.subs) == 0 {
			// libsensors drops features without any known sub-feature
			continue
		}
		f.Number = number
		number++
		features = append(features, f)
	}
	return features
}

func root() string {
	if r := os.Getenv("FAN2GO_VERIF_HWMON_ROOT"); r != "" {
		return r
	}
	return "/sys/class/hwmon"
}

func Init()    {}
func Cleanup() {}

func GetDetectedChips() []Chip {
	r := root()
	var names []string
	if data, err := os.ReadFile(filepath.Join(r, "ORDER")); err == nil {
		for _, l := range strings.Split(string(data), "\n") {
			l = strings.TrimSpace(l)
			if l != "" {
				names = append(names, l)
			}
		}
	} else {
		entries, err := os.ReadDir(r)
		if err != nil {
			return nil
		}
		for _, e := range entries {
			if strings.HasPrefix(e.Name(), "hwmon") {
				names = append(names, e.Name())
			}
		}
		sort.Strings(names)
	}
	var chips []Chip
	for _, n := range names {
		p := filepath.Join(r, n)
		if st, err := os.Stat(p); err != nil || !st.IsDir() {
			continue
		}
		nameData, _ := os.ReadFile(filepath.Join(p, "name"))
		prefix := strings.TrimSpace(string(nameData))
		if prefix == "" {
			continue
		}
		c := Chip{Prefix: prefix, Bus: Bus{Type: 4, Nr: 0}, Addr: 0, Path: p}
		// optional "bus" file: "<type> <nr> <addr>"
		if data, err := os.ReadFile(filepath.Join(p, "bus")); err == nil {
			f := strings.Fields(string(data))
			if len(f) == 3 {
				t, _ := strconv.Atoi(f[0])
				nr, _ := strconv.Atoi(f[1])
				a, _ := strconv.ParseInt(f[2], 0, 32)
				c.Bus = Bus{Type: int16(t), Nr: int16(nr)}
				c.Addr = int32(a)
			}
		}
		chips = append(chips, c)
	}
	return chips
}
