package main

import (
	"fmt"
	"math"
	"os"
	"path/filepath"
	"strings"

	"github.com/markusressel/fan2go/internal"
	"github.com/markusressel/fan2go/internal/configuration"
	"github.com/markusressel/fan2go/internal/curves"
	"github.com/markusressel/fan2go/internal/sensors"
	"github.com/prometheus/client_golang/prometheus"
	"github.com/spf13/viper"
)

// c06ConfigPath: the curves as a user gets them - written in a configuration file, loaded and validated by the real
// loader, built and registered by the daemon's own InitializeObjects. The reference is computed from the text of the
// file (member lists in the order the user wrote them), not from the loaded structures.
func c06ConfigPath(ctx *Ctx, idx int) {
	r := ctx.Rng
	dir := ctx.Path(fmt.Sprintf("c06cfg-%d-%d", ctx.Batch, idx))
	_ = os.MkdirAll(dir, 0755)
	defer os.RemoveAll(dir)
	letters := "zyxwvutsrqponmlkjihgfedcba"
	used := map[string]bool{}
	newId := func(kind string) string {
		for {
			id := fmt.Sprintf("%c%c_%s", letters[r.Intn(len(letters))], letters[r.Intn(len(letters))], kind)
			if !used[id] {
				used[id] = true
				return id
			}
		}
	}
	var sb strings.Builder
	sb.WriteString("dbPath: " + filepath.Join(dir, "fan2go.db") + "\n")
	type lin struct {
		id, sensor string
		mn, mx     int
	}
	type fn struct {
		id, typ string
		members []string
	}
	nS := 2 + r.Intn(3)
	var sensorIds []string
	sb.WriteString("sensors:\n")
	for i := 0; i < nS; i++ {
		id := newId("sensor")
		sensorIds = append(sensorIds, id)
		p := filepath.Join(dir, "sensor-"+id)
		_ = os.WriteFile(p, []byte("40000\n"), 0644)
		sb.WriteString("  - id: " + id + "\n    file:\n      path: " + p + "\n")
	}
	var lins []lin
	var fns []fn
	var curveIds []string
	for i := 0; i < nS+r.Intn(2); i++ {
		mn := r.Intn(60)
		l := lin{id: newId("lin"), sensor: sensorIds[i%nS], mn: mn, mx: mn + 10 + r.Intn(60)}
		lins = append(lins, l)
		curveIds = append(curveIds, l.id)
	}
	nF := 1 + r.Intn(4)
	for i := 0; i < nF; i++ {
		f := fn{id: newId("fn"), typ: fnTypes[r.Intn(len(fnTypes))]}
		if i == 0 || r.Intn(3) == 0 {
			f.typ = configuration.FunctionDifference // the one function whose result depends on the order of its members
		}
		k := 2 + r.Intn(3)
		if k > len(curveIds) {
			k = len(curveIds)
		}
		for _, j := range r.Perm(len(curveIds))[:k] {
			f.members = append(f.members, curveIds[j])
		}
		if r.Intn(3) == 0 {
			// a member listed twice counts twice (sum [a, a] is 2a, difference [b, a, a] is b - 2a)
			f.members = append(f.members, f.members[r.Intn(len(f.members))])
			r.Shuffle(len(f.members), func(a, b int) { f.members[a], f.members[b] = f.members[b], f.members[a] })
		}
		fns = append(fns, f)
		curveIds = append(curveIds, f.id)
	}
	// listing order: members before the curves that use them (as in the README), or shuffled
	sb.WriteString("curves:\n")
	var entries []string
	for _, l := range lins {
		entries = append(entries, fmt.Sprintf("  - id: %s\n    linear:\n      sensor: %s\n      min: %d\n      max: %d\n", l.id, l.sensor, l.mn, l.mx))
	}
	for _, f := range fns {
		e := fmt.Sprintf("  - id: %s\n    function:\n      type: %s\n      curves:\n", f.id, f.typ)
		for _, m := range f.members {
			e += "        - " + m + "\n"
		}
		entries = append(entries, e)
	}
	shuffled := r.Intn(2) == 0
	if shuffled {
		r.Shuffle(len(entries), func(a, b int) { entries[a], entries[b] = entries[b], entries[a] })
	}
	sb.WriteString(strings.Join(entries, ""))
	fanFile := filepath.Join(dir, "fanpwm")
	_ = os.WriteFile(fanFile, []byte("100\n"), 0644)
	sb.WriteString("fans:\n")
	for i, f := range fns {
		sb.WriteString(fmt.Sprintf("  - id: fan%d\n    curve: %s\n    file:\n      path: %s\n", i, f.id, fanFile))
	}
	for i, l := range lins {
		// member curves are fans' curves as well (a CPU fan on the CPU curve, case fans on maximum(cpu, board))
		if i%2 == 0 {
			sb.WriteString(fmt.Sprintf("  - id: linfan%d\n    curve: %s\n    file:\n      path: %s\n", i, l.id, fanFile))
		}
	}
	text := sb.String()
	cfgPath := filepath.Join(dir, "fan2go.yaml")
	_ = os.WriteFile(cfgPath, []byte(text), 0644)
	replay := map[string]interface{}{"kind": "config-path", "yaml": text}
	ctx.SampleKind("config-path", replay)
	ctx.LogCase(map[string]interface{}{"class": "config-path:process-died", "yaml": text})

	viper.Reset()
	var lerr error
	panicked, msg := Guard(func() {
		configuration.InitConfig(cfgPath)
		if err := viper.ReadInConfig(); err != nil {
			lerr = err
			return
		}
		configuration.LoadConfig()
		if lerr = configuration.Validate(cfgPath); lerr != nil {
			return
		}
		_ = os.Setenv("FAN2GO_VERIF_HWMON_ROOT", c11FakeTree(dir))
		reg := prometheus.NewRegistry()
		prometheus.DefaultRegisterer, prometheus.DefaultGatherer = reg, reg
		_, lerr = internal.InitializeObjects()
	})
	ctx.Eval(1)
	if panicked || lerr != nil {
		ctx.Violation("config-path:documented-curves-not-loadable", fmt.Sprintf("%v %s\n%s", lerr, firstLines(msg, 6), text), replay)
		return
	}
	for round := 0; round < 6; round++ {
		temps := map[string]float64{}
		for _, id := range sensorIds {
			temps[id] = float64(r.Intn(110000)) - 5000
			s, ok := sensors.GetSensor(id)
			if !ok {
				ctx.Violation("config-path:sensor-not-registered", id+"\n"+text, replay)
				return
			}
			s.SetMovingAvg(temps[id])
		}
		vals := map[string]int{}
		early := map[string]int{} // odd rounds: the function curves are evaluated before any of their members was, at this sensor state
		eval := func(id string) (int, bool) {
			c, ok := curves.GetSpeedCurve(id)
			if !ok {
				ctx.Violation("config-path:curve-not-registered", id+"\n"+text, replay)
				return 0, false
			}
			var v int
			var err error
			p, pmsg := Guard(func() { v, err = c.Evaluate() })
			ctx.Eval(1)
			if p || err != nil {
				ctx.Violation("config-path:panic-or-error", fmt.Sprintf("curve %s: %v %s\n%s", id, err, firstLines(pmsg, 6), text), replay)
				return 0, false
			}
			return v, true
		}
		if round%2 == 1 {
			for i := len(fns) - 1; i >= 0; i-- {
				v, ok := eval(fns[i].id)
				if !ok {
					return
				}
				early[fns[i].id] = v
			}
		}
		for _, l := range lins {
			v, ok := eval(l.id)
			if !ok {
				return
			}
			exp := (temps[l.sensor]/1000 - float64(l.mn)) / float64(l.mx-l.mn)
			exp = math.Max(0, math.Min(1, exp)) * 255
			if math.Abs(float64(v)-exp) >= 1 {
				ctx.Violation("config-path:linear:not-interpolation", fmt.Sprintf("curve %s (min %d, max %d) at %.3f degrees: %d, documented %.2f\n%s", l.id, l.mn, l.mx, temps[l.sensor]/1000, v, exp, text), replay)
				return
			}
			vals[l.id] = v
		}
		for _, f := range fns {
			var mv []int
			for _, m := range f.members {
				mv = append(mv, vals[m])
			}
			v, ok := eval(f.id)
			if !ok {
				return
			}
			want := refAgg(f.typ, mv)
			if v != want {
				ctx.Violation("config-path:function:"+f.typ+":wrong-aggregate", fmt.Sprintf("curve %s = %s%v with member values %v: %d, documented %d\n%s", f.id, f.typ, f.members, mv, v, want, text), replay)
				return
			}
			vals[f.id] = v
			if e, ok := early[f.id]; ok && e != want {
				ctx.Violation("config-path:function:"+f.typ+":wrong-aggregate:evaluated-before-its-members", fmt.Sprintf("curve %s = %s%v evaluated first at a new sensor state: %d, documented %d (member values %v)\n%s", f.id, f.typ, f.members, e, want, mv, text), replay)
				return
			}
		}
	}
	sortedMembers := true
	for _, f := range fns {
		for i := 1; i < len(f.members); i++ {
			if f.members[i-1] > f.members[i] {
				sortedMembers = false
			}
		}
	}
	ctx.Nontrivial(fmt.Sprintf("config-path|sensors%d|lin%d|fn%d|shuffled=%v|membersSorted=%v|%s", nS, len(lins), len(fns), shuffled, sortedMembers, hash64(text)))
}
