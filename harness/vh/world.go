package main

import (
	"fmt"
	"os"
	"sync"
	"path/filepath"
	"sort"
	"strconv"
	"strings"
	"sync/atomic"
	"time"

	"github.com/markusressel/fan2go/internal/configuration"
	"github.com/markusressel/fan2go/internal/control_loop"
	"github.com/markusressel/fan2go/internal/controller"
	"github.com/markusressel/fan2go/internal/curves"
	"github.com/markusressel/fan2go/internal/fans"
	"github.com/markusressel/fan2go/internal/persistence"
	"github.com/markusressel/fan2go/internal/util"
)

// ---------- virtual clock ----------

var vclock = time.Date(2030, 1, 1, 0, 0, 0, 0, time.UTC)

// clockAutoTick > 0 makes every reading of the virtual clock advance it a little, like the
// real monotonic clock does (two readings are never identical).
var clockAutoTick time.Duration

func installClock() {
	util.VerifNow = func() time.Time {
		vclock = vclock.Add(clockAutoTick)
		return vclock
	}
}

func advance(d time.Duration) { vclock = vclock.Add(d) }

// ---------- scripted curve ----------

var idCounter int64

func uniqueId(prefix string) string {
	return fmt.Sprintf("%s-%d", prefix, atomic.AddInt64(&idCounter, 1))
}

// ScriptCurve is a curves.SpeedCurve whose value is set by the harness (any
// integer, also outside 0..255) and which can be told to fail.
type ScriptCurve struct {
	Id    string
	Val   int
	Err   error
	Evals int
}

func (c *ScriptCurve) GetId() string { return c.Id }
func (c *ScriptCurve) Evaluate() (int, error) {
	c.Evals++
	if c.Err != nil {
		return c.Val, c.Err
	}
	return c.Val, nil
}
func (c *ScriptCurve) CurrentValue() int { return c.Val }

func newScriptCurve() *ScriptCurve {
	c := &ScriptCurve{Id: uniqueId("vcurve")}
	curves.RegisterSpeedCurve(c)
	return c
}

// ScriptSensor is a sensors.Sensor under harness control.
type ScriptSensor struct {
	Id  string
	Avg float64
	Val float64
	Err error
}

func (s *ScriptSensor) GetId() string                             { return s.Id }
func (s *ScriptSensor) GetConfig() configuration.SensorConfig     { return configuration.SensorConfig{ID: s.Id} }
func (s *ScriptSensor) GetValue() (float64, error)                { return s.Val, s.Err }
func (s *ScriptSensor) GetMovingAvg() float64                     { return s.Avg }
func (s *ScriptSensor) SetMovingAvg(avg float64)                  { s.Avg = avg }

// ---------- memory persistence ----------

type memPersistence struct {
	mu      sync.Mutex
	pwmData map[string]map[int]float64
	pwmMaps map[string]map[int]int
	Calls   []string
}

func newMemPersistence() *memPersistence {
	return &memPersistence{pwmData: map[string]map[int]float64{}, pwmMaps: map[string]map[int]int{}}
}
func (p *memPersistence) Init() error { return nil }
func (p *memPersistence) LoadFanPwmData(fan fans.Fan) (map[int]float64, error) {
	p.mu.Lock()
	defer p.mu.Unlock()
	p.Calls = append(p.Calls, "LoadFanPwmData:"+fan.GetId())
	if d, ok := p.pwmData[fan.GetId()]; ok {
		return d, nil
	}
	return nil, os.ErrNotExist
}
func (p *memPersistence) SaveFanPwmData(fan fans.Fan) error {
	p.mu.Lock()
	defer p.mu.Unlock()
	p.Calls = append(p.Calls, "SaveFanPwmData:"+fan.GetId())
	m := map[int]float64{}
	for k, v := range *fan.GetFanRpmCurveData() {
		m[k] = v
	}
	p.pwmData[fan.GetId()] = m
	return nil
}
func (p *memPersistence) DeleteFanPwmData(fan fans.Fan) error {
	p.mu.Lock()
	defer p.mu.Unlock()
	delete(p.pwmData, fan.GetId())
	return nil
}
func (p *memPersistence) LoadFanPwmMap(fanId string) (map[int]int, error) {
	p.mu.Lock()
	defer p.mu.Unlock()
	p.Calls = append(p.Calls, "LoadFanPwmMap:"+fanId)
	if d, ok := p.pwmMaps[fanId]; ok {
		return d, nil
	}
	return nil, os.ErrNotExist
}
func (p *memPersistence) SaveFanPwmMap(fanId string, m map[int]int) error {
	p.mu.Lock()
	defer p.mu.Unlock()
	p.Calls = append(p.Calls, "SaveFanPwmMap:"+fanId)
	c := map[int]int{}
	for k, v := range m {
		c[k] = v
	}
	p.pwmMaps[fanId] = c
	return nil
}
func (p *memPersistence) DeleteFanPwmMap(fanId string) error {
	p.mu.Lock()
	defer p.mu.Unlock()
	delete(p.pwmMaps, fanId)
	return nil
}

var _ persistence.Persistence = (*memPersistence)(nil)

// ---------- virtual sysfs ----------

// VFan is a fan device living in the virtual driver: three paths whose content
// is held in util.VerifDriver.Mem (placeholder files exist so that os.Stat in
// HwMonFan.Supports succeeds).
type VFan struct {
	Dir        string
	PwmPath    string
	EnablePath string
	RpmPath    string
	Plant      *util.VerifPlant
	// Quant, when set, is applied by the "device" to every PWM write
	Quant func(int) int
}

var driver *util.VerifDriverT

func installDriver() *util.VerifDriverT {
	if driver == nil {
		driver = &util.VerifDriverT{Mem: map[string]string{}, Plants: map[string]*util.VerifPlant{}}
		util.VerifDriver = driver
	}
	return driver
}

func resetDriver() {
	d := installDriver()
	d.Rules = nil
	d.Log = d.Log[:0]
	d.Hook = nil
}

func newVFan(ctx *Ctx, withEnable, withRpm bool) *VFan {
	d := installDriver()
	dir := ctx.Path(uniqueId("hwmon"))
	_ = os.MkdirAll(dir, 0755)
	v := &VFan{Dir: dir, PwmPath: filepath.Join(dir, "pwm1"), EnablePath: filepath.Join(dir, "pwm1_enable"), RpmPath: filepath.Join(dir, "fan1_input")}
	_ = os.WriteFile(v.PwmPath, []byte("0"), 0644)
	d.Mem[v.PwmPath] = "0"
	if withEnable {
		_ = os.WriteFile(v.EnablePath, []byte("2"), 0644)
		d.Mem[v.EnablePath] = "2"
	}
	if withRpm {
		_ = os.WriteFile(v.RpmPath, []byte("0"), 0644)
		v.Plant = &util.VerifPlant{RpmPath: v.RpmPath, PwmPath: v.PwmPath, Kind: "linear", MaxRpm: 2000}
		d.Plants[v.RpmPath] = v.Plant
	}
	return v
}

func (v *VFan) Pwm() int {
	n, _ := strconv.Atoi(strings.TrimSpace(driver.Mem[v.PwmPath]))
	return n
}
func (v *VFan) SetPwmRaw(p int)  { driver.Mem[v.PwmPath] = strconv.Itoa(p) }
func (v *VFan) Mode() int {
	n, _ := strconv.Atoi(strings.TrimSpace(driver.Mem[v.EnablePath]))
	return n
}
func (v *VFan) SetModeRaw(m int) { driver.Mem[v.EnablePath] = strconv.Itoa(m) }

func (v *VFan) hwmonConfig(id string, curveId string) configuration.FanConfig {
	return configuration.FanConfig{
		ID:    id,
		Curve: curveId,
		HwMon: &configuration.HwMonFanConfig{
			Platform: "verif", Index: 1, RpmChannel: 1, PwmChannel: 1,
			SysfsPath: v.Dir, RpmInputPath: v.RpmPath, PwmPath: v.PwmPath, PwmEnablePath: v.EnablePath,
		},
	}
}

func (v *VFan) fileConfig(id string, curveId string, withRpm bool) configuration.FanConfig {
	c := configuration.FanConfig{ID: id, Curve: curveId, File: &configuration.FileFanConfig{Path: v.PwmPath}}
	if withRpm {
		c.File.RpmPath = v.RpmPath
	}
	return c
}

// ---------- SimFan: a fans.Fan without any I/O ----------

type SimFan struct {
	Id        string
	CurveId   string
	NeverStop bool
	Min, Max  int
	Start     int
	HasPwm    bool
	HasRpm    bool
	HasMode   bool
	PwmVal    int
	ModeVal   int
	RpmAvg    float64
	RpmFn     func(pwm int) int
	SetErr    error
	Calls     []string
	OnSet     func(pwm int)
}

func (f *SimFan) GetId() string                    { return f.Id }
func (f *SimFan) GetMinPwm() int {
	if f.NeverStop {
		return f.Min
	}
	return 0
}
func (f *SimFan) SetMinPwm(pwm int, force bool)    { f.Min = pwm }
func (f *SimFan) GetStartPwm() int                 { return f.Start }
func (f *SimFan) SetStartPwm(pwm int, force bool)  { f.Start = pwm }
func (f *SimFan) GetMaxPwm() int                   { return f.Max }
func (f *SimFan) SetMaxPwm(pwm int, force bool)    { f.Max = pwm }
func (f *SimFan) GetRpm() (int, error) {
	if f.RpmFn == nil {
		return 0, nil
	}
	return f.RpmFn(f.PwmVal), nil
}
func (f *SimFan) GetRpmAvg() float64               { return f.RpmAvg }
func (f *SimFan) SetRpmAvg(rpm float64)            { f.RpmAvg = rpm }
func (f *SimFan) GetPwm() (int, error) {
	if !f.HasPwm {
		return 0, fmt.Errorf("no pwm sensor")
	}
	return f.PwmVal, nil
}
func (f *SimFan) SetPwm(pwm int) error {
	f.Calls = append(f.Calls, "SetPwm:"+strconv.Itoa(pwm))
	if f.OnSet != nil {
		f.OnSet(pwm)
	}
	if f.SetErr != nil {
		return f.SetErr
	}
	f.PwmVal = pwm
	return nil
}
func (f *SimFan) GetFanRpmCurveData() *map[int]float64 {
	m := map[int]float64{0: 0, 255: 2000}
	return &m
}
func (f *SimFan) AttachFanRpmCurveData(curveData *map[int]float64) error { return nil }
func (f *SimFan) UpdateFanRpmCurveValue(pwm int, rpm float64)            {}
func (f *SimFan) GetCurveId() string                                     { return f.CurveId }
func (f *SimFan) ShouldNeverStop() bool                                  { return f.NeverStop }
func (f *SimFan) GetPwmEnabled() (int, error)                            { return f.ModeVal, nil }
func (f *SimFan) SetPwmEnabled(value fans.ControlMode) error {
	f.Calls = append(f.Calls, "SetPwmEnabled:"+strconv.Itoa(int(value)))
	f.ModeVal = int(value)
	return nil
}
func (f *SimFan) IsPwmAuto() (bool, error) { return f.ModeVal > 1, nil }
func (f *SimFan) Supports(feature fans.FeatureFlag) bool {
	switch feature {
	case fans.FeaturePwmSensor:
		return f.HasPwm
	case fans.FeatureRpmSensor:
		return f.HasRpm
	case fans.FeatureControlMode:
		return f.HasMode
	}
	return false
}

// ---------- reference functions (independent of fan2go's own) ----------

// refSupported returns the first key of each run of consecutive equal outputs.
func refSupported(m map[int]int) []int {
	keys := make([]int, 0, len(m))
	for k := range m {
		keys = append(keys, k)
	}
	sort.Ints(keys)
	var out []int
	for i, k := range keys {
		if i == 0 || m[k] != m[keys[i-1]] {
			out = append(out, k)
		}
	}
	return out
}

// refNearest returns the set of supported inputs at minimal distance (1 or 2).
func refNearest(supported []int, r int) []int {
	best := -1
	var out []int
	for _, k := range supported {
		d := k - r
		if d < 0 {
			d = -d
		}
		if best < 0 || d < best {
			best = d
			out = []int{k}
		} else if d == best {
			out = append(out, k)
		}
	}
	return out
}

func identityMap() map[int]int {
	m := map[int]int{}
	for i := 0; i <= 255; i++ {
		m[i] = i
	}
	return m
}

// quantMap is the map fan2go's own sweep would measure on a device that
// stores the nearest of the given levels.
func quantLevels(n int) []int {
	var l []int
	for i := 0; i < n; i++ {
		l = append(l, i*255/(n-1))
	}
	return l
}

func nearestLevel(levels []int, v int) int {
	best, bd := levels[0], 1<<30
	for _, l := range levels {
		d := l - v
		if d < 0 {
			d = -d
		}
		if d < bd {
			bd, best = d, l
		}
	}
	return best
}

func quantMap(levels []int) map[int]int {
	m := map[int]int{}
	for i := 0; i <= 255; i++ {
		m[i] = nearestLevel(levels, i)
	}
	return m
}

// ---------- controller construction ----------

type LoopSpec struct {
	Kind string  `json:"kind"` // direct | ratelimit | pid
	M    int     `json:"m,omitempty"`
	P    float64 `json:"p,omitempty"`
	I    float64 `json:"i,omitempty"`
	D    float64 `json:"d,omitempty"`
}

func (l LoopSpec) build() control_loop.ControlLoop {
	switch l.Kind {
	case "ratelimit":
		m := l.M
		return control_loop.NewDirectControlLoop(&m)
	case "pid":
		return control_loop.NewPidControlLoop(l.P, l.I, l.D)
	}
	return control_loop.NewDirectControlLoop(nil)
}

func newController(fan fans.Fan, loop control_loop.ControlLoop, pers persistence.Persistence, pwmMap map[int]int) *controller.DefaultFanController {
	c := controller.NewFanController(pers, fan, loop, 50*time.Millisecond).(*controller.DefaultFanController)
	if pwmMap != nil {
		c.VerifSetPwmMap(pwmMap)
	}
	return c
}

func vclockAdvance(ms int64) { advance(time.Duration(ms) * time.Millisecond) }
