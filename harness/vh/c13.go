package main

import (
	"fmt"
	"math/rand"
	"sort"

	"os"
	"sync"
	"time"

	"github.com/markusressel/fan2go/internal/configuration"
	"github.com/markusressel/fan2go/internal/control_loop"
	"github.com/markusressel/fan2go/internal/controller"
	"github.com/markusressel/fan2go/internal/fans"
)

// C13 — measured fan limits follow the RPM curve; configured limits always win.
//
// Real HwMonFan (fans.NewFan) + AttachFanRpmCurveData + getters against a
// reference computed from the data:
//   start = least key with non-zero RPM   (keys whose RPM is in (0,1) may count either way)
//   max   = least key attaining the highest whole RPM
//   nil / empty data is refused and leaves every limit unchanged
//   configured minPwm / startPwm / maxPwm are returned unchanged after any number of attachments
//   a fan without neverStop has minimum 0
// For all-zero data only "no panic, limits in 0..255, configured values kept" is required; an
// unconfigured minimum must lie in 0..255 and be stable across reads.

type c13Data map[int]float64

func c13Ref(d c13Data) (startLo, startHi, maxPwm int, defined bool) {
	keys := make([]int, 0, len(d))
	for k := range d {
		keys = append(keys, k)
	}
	sort.Ints(keys)
	startLo, startHi = -1, -1
	best := 0
	maxPwm = -1
	for _, k := range keys {
		if d[k] > 0 && startLo < 0 {
			startLo = k // least key with rpm > 0
		}
		if int(d[k]) > 0 && startHi < 0 {
			startHi = k // least key with whole rpm > 0
		}
		if int(d[k]) > best {
			best = int(d[k])
			maxPwm = k
		}
	}
	return startLo, startHi, maxPwm, startHi >= 0
}

func genC13Data(r *rand.Rand) c13Data {
	d := c13Data{}
	switch r.Intn(7) {
	case 0: // single point
		d[r.Intn(256)] = pick(r, 0.0, 0.4, 1, 500, 2000)
	case 1: // all zero
		for _, k := range r.Perm(256)[:1+r.Intn(10)] {
			d[k] = 0
		}
	case 2: // plateau with fractional jitter at the top
		start := r.Intn(100)
		top := start + 1 + r.Intn(100)
		base := float64(500 + r.Intn(3000))
		for k := 0; k <= 255; k += 1 + r.Intn(8) {
			switch {
			case k < start:
				d[k] = 0
			case k >= top:
				d[k] = base + r.Float64()*0.99
			default:
				d[k] = 200 + (base-200)*float64(k-start)/float64(top-start+1)*0.9
			}
		}
	case 3: // non-monotonic
		for _, k := range r.Perm(256)[:2+r.Intn(40)] {
			d[k] = pick(r, 0.0, 0.0, 0.4, 0.9, 1, 1.5, 500, 500.9, 2000, float64(r.Intn(3000)))
		}
	case 4: // full-size realistic curve
		start := r.Intn(120)
		top := start + r.Intn(256-start)
		for k := 0; k <= 255; k++ {
			switch {
			case k < start:
				d[k] = 0
			case k >= top:
				d[k] = 3000
			default:
				d[k] = 400 + 2600*float64(k-start)/float64(top-start+1)
			}
		}
	default: // sparse small
		for _, k := range r.Perm(256)[:1+r.Intn(6)] {
			d[k] = pick(r, 0.0, 0.4, 1, 500, 500.9, 2000)
		}
	}
	return d
}

type c13Case struct {
	Kind      string    `json:"kind,omitempty"` // "" = hwmon; "file" / "cmd": only the clauses that hold for every fan
	NeverStop bool      `json:"neverStop"`
	CfgMin    *int      `json:"cfgMin,omitempty"`
	CfgStart  *int      `json:"cfgStart,omitempty"`
	CfgMax    *int      `json:"cfgMax,omitempty"`
	Attach    []c13Data `json:"attach"` // nil entry = nil pointer, empty = empty map
}

func c13Run(ctx *Ctx, c *c13Case) {
	cfg := configuration.FanConfig{ID: uniqueId("c13fan"), NeverStop: c.NeverStop, MinPwm: c.CfgMin, StartPwm: c.CfgStart, MaxPwm: c.CfgMax,
		HwMon: &configuration.HwMonFanConfig{Platform: "x", Index: 1, PwmPath: "/nonexistent/pwm1", RpmInputPath: "/nonexistent/fan1_input", PwmEnablePath: "/nonexistent/pwm1_enable"}}
	switch c.Kind {
	case "file":
		cfg.HwMon, cfg.File = nil, &configuration.FileFanConfig{Path: "/nonexistent/pwm", RpmPath: "/nonexistent/rpm"}
	case "cmd":
		cfg.HwMon, cfg.Cmd = nil, &configuration.CmdFanConfig{SetPwm: &configuration.ExecConfig{Exec: "/nonexistent/set", Args: []string{"%pwm%"}}}
	}
	fan, err := fans.NewFan(cfg)
	if err != nil {
		ctx.Inconclusive("NewFan: " + err.Error())
		return
	}
	if c.Kind != "" {
		c13OtherBackends(ctx, c, fan)
		return
	}
	cfgClass := fmt.Sprintf("min=%v:start=%v:max=%v", c.CfgMin != nil, c.CfgStart != nil, c.CfgMax != nil)
	limits := func() [3]int { return [3]int{fan.GetMinPwm(), fan.GetStartPwm(), fan.GetMaxPwm()} }
	attached := 0
	for idx, d := range c.Attach {
		before := limits()
		var aerr error
		panicked, msg := Guard(func() {
			if d == nil {
				aerr = fan.AttachFanRpmCurveData(nil)
			} else {
				m := map[int]float64{}
				for k, v := range d {
					m[k] = v
				}
				aerr = fan.AttachFanRpmCurveData(&m)
			}
		})
		ctx.Eval(1)
		if panicked {
			ctx.Violation("panic-in-attach", fmt.Sprintf("%s: %s", jsonStr(c), msg), c)
			return
		}
		after := limits()
		if len(d) == 0 {
			if aerr == nil {
				ctx.Violation("empty-data-not-refused", fmt.Sprintf("attachment %d of %s", idx, jsonStr(c)), c)
			}
			if after != before {
				ctx.Violation("limits-changed-by-refused-data", fmt.Sprintf("attachment %d of %s: %v -> %v", idx, jsonStr(c), before, after), c)
			}
			continue
		}
		if aerr != nil {
			ctx.Violation("data-refused", fmt.Sprintf("attachment %d of %s: %v", idx, jsonStr(c), aerr), c)
			return
		}
		attached++
		nth := "first"
		if attached > 1 {
			nth = "reattach"
		}
		for _, v := range after {
			if v < 0 || v > 255 {
				ctx.Violation("limit-outside-0..255:"+nth, fmt.Sprintf("%s -> %v", jsonStr(c), after), c)
			}
		}
		if limits() != after {
			ctx.Violation("limits-unstable-across-reads", jsonStr(c), c)
		}
		// configured values always win
		if c.CfgStart != nil && after[1] != *c.CfgStart {
			ctx.Violation("configured-start-replaced:"+nth+":"+cfgClass, fmt.Sprintf("%s -> start %d", jsonStr(c), after[1]), c)
		}
		if c.CfgMax != nil && after[2] != *c.CfgMax {
			ctx.Violation("configured-max-replaced:"+nth+":"+cfgClass, fmt.Sprintf("%s -> max %d", jsonStr(c), after[2]), c)
		}
		if c.NeverStop && c.CfgMin != nil && after[0] != *c.CfgMin {
			ctx.Violation("configured-min-replaced:"+nth+":"+cfgClass, fmt.Sprintf("%s -> min %d", jsonStr(c), after[0]), c)
		}
		if !c.NeverStop && after[0] != 0 {
			ctx.Violation("minimum-not-0-without-neverStop:"+nth, fmt.Sprintf("%s -> min %d", jsonStr(c), after[0]), c)
		}
		sLo, sHi, mx, defined := c13Ref(d)
		if !defined {
			ctx.Count("all_zero_attachments", 1)
			continue
		}
		if c.CfgStart == nil && after[1] != sLo && after[1] != sHi {
			ctx.Violation("measured-start-wrong:"+nth+":"+cfgClass, fmt.Sprintf("%s attachment %d -> start %d, reference %d (or %d)", jsonStr(c), idx, after[1], sHi, sLo), c)
		}
		if c.CfgMax == nil && after[2] != mx {
			ctx.Violation("measured-max-wrong:"+nth+":"+cfgClass, fmt.Sprintf("%s attachment %d -> max %d, reference %d", jsonStr(c), idx, after[2], mx), c)
		}
	}
	if attached > 0 {
		ctx.Nontrivial(hash64(jsonStr(c)))
		ctx.AddSet("config_combination_x_attachments", fmt.Sprintf("%s|ns=%v|%d", cfgClass, c.NeverStop, attached))
	}
}

// file and cmd fans have no measured curve; what the property says about every fan is checked on them: a fan
// without neverStop has minimum 0 whatever the configuration gives, limits stay in 0..255 and are stable, and
// nothing panics when curve data is attached.
func c13OtherBackends(ctx *Ctx, c *c13Case, fan fans.Fan) {
	cfgClass := fmt.Sprintf("%s:min=%v:start=%v:max=%v", c.Kind, c.CfgMin != nil, c.CfgStart != nil, c.CfgMax != nil)
	check := func(when string) bool {
		var l [3]int
		panicked, msg := Guard(func() { l = [3]int{fan.GetMinPwm(), fan.GetStartPwm(), fan.GetMaxPwm()} })
		ctx.Eval(1)
		if panicked {
			ctx.Violation("panic-in-limit-getter:"+c.Kind, fmt.Sprintf("%s: %s", jsonStr(c), msg), c)
			return false
		}
		for _, v := range l {
			if v < 0 || v > 255 {
				ctx.Violation("limit-outside-0..255:"+c.Kind, fmt.Sprintf("%s -> %v", jsonStr(c), l), c)
			}
		}
		if !c.NeverStop && l[0] != 0 {
			ctx.Violation("minimum-not-0-without-neverStop:"+when+":"+cfgClass, fmt.Sprintf("%s -> min %d", jsonStr(c), l[0]), c)
		}
		return true
	}
	if !check("first") {
		return
	}
	for _, d := range c.Attach {
		panicked, msg := Guard(func() {
			if d == nil {
				_ = fan.AttachFanRpmCurveData(nil)
			} else {
				m := map[int]float64{}
				for k, v := range d {
					m[k] = v
				}
				_ = fan.AttachFanRpmCurveData(&m)
			}
		})
		if panicked {
			ctx.Violation("panic-in-attach:"+c.Kind, fmt.Sprintf("%s: %s", jsonStr(c), msg), c)
			return
		}
		if !check("reattach") {
			return
		}
	}
	ctx.Nontrivial(hash64(jsonStr(c)))
	ctx.AddSet("config_combination_x_attachments", fmt.Sprintf("%s|ns=%v", cfgClass, c.NeverStop))
}

// c13Tachless: "given no measurements it refuses instead of inventing limits" at the place where measurements come
// from - the controller's initial analysis. A hwmon fan with a PWM output but no tachometer input cannot be measured:
// after the analysis nothing may be stored as its RPM curve, the fan carries no curve points, and its limits are what
// they were before (configured values, else the built-in defaults).
func c13Tachless(ctx *Ctx, r *rand.Rand) {
	installClock()
	resetDriver()
	controller.VerifTimescale = 50
	configuration.CurrentConfig.FanResponseDelay = 0
	v := newVFan(ctx, r.Intn(2) == 0, false)
	defer func() {
		delete(driver.Mem, v.PwmPath)
		delete(driver.Mem, v.EnablePath)
		_ = os.RemoveAll(v.Dir)
	}()
	curve := newScriptCurve()
	cfg := v.hwmonConfig(uniqueId("c13tachless"), curve.Id)
	cfg.NeverStop = r.Intn(2) == 0
	m := identityMap()
	cfg.PwmMap = &m // (a configured map: no sweep is needed to learn the PWM map)
	desc := map[string]interface{}{"scenario": "initial analysis of a hwmon fan without tachometer input", "neverStop": cfg.NeverStop}
	if r.Intn(2) == 0 {
		cfg.MaxPwm = iptr(100 + r.Intn(156))
		desc["cfgMax"] = *cfg.MaxPwm
	}
	fan, err := fans.NewFan(cfg)
	if err != nil {
		ctx.Inconclusive("tachless fan: " + err.Error())
		return
	}
	pers := newMemPersistence()
	ctrl := controller.NewFanController(pers, fan, control_loop.NewDirectControlLoop(nil), 5*time.Millisecond).(*controller.DefaultFanController)
	before := [3]int{fan.GetMinPwm(), fan.GetStartPwm(), fan.GetMaxPwm()}
	var ierr error
	panicked, msg := Guard(func() { ierr = ctrl.RunInitializationSequence() })
	ctx.Eval(1)
	if panicked {
		ctx.Violation("tachless:panic-in-initial-analysis", msg, desc)
		return
	}
	after := [3]int{fan.GetMinPwm(), fan.GetStartPwm(), fan.GetMaxPwm()}
	points := 0
	if d := fan.GetFanRpmCurveData(); d != nil {
		points = len(*d)
	}
	_, lerr := pers.LoadFanPwmData(fan)
	switch {
	case lerr == nil:
		ctx.Violation("tachless:rpm-curve-stored-without-a-measurement", fmt.Sprintf("%s: the database holds an RPM curve for a fan that has no tachometer (analysis returned %v); limits %v -> %v", jsonStr(desc), ierr, before, after), desc)
	case points > 0:
		ctx.Violation("tachless:curve-points-without-a-measurement", fmt.Sprintf("%s: the fan carries %d curve points; limits %v -> %v", jsonStr(desc), points, before, after), desc)
	case after != before:
		ctx.Violation("tachless:limits-changed-without-a-measurement", fmt.Sprintf("%s: limits %v -> %v", jsonStr(desc), before, after), desc)
	default:
		ctx.Nontrivial(fmt.Sprintf("tachless|ns=%v|max=%v", cfg.NeverStop, cfg.MaxPwm != nil))
	}
}

// c13ConcurrentAttach: the daemon's fan controllers attach curve data to their fans from one goroutine per fan, at about
// the same time (after start-up: loaded from the database; after the analyses when they may run in parallel). Each
// fan's limits follow that fan's own data.
func c13ConcurrentAttach(ctx *Ctx, r *rand.Rand) {
	const G, N = 4, 300
	type set struct {
		d          c13Data
		sLo, sHi   int
		mx         int
	}
	var sets []set
	for len(sets) < 3 {
		d := genC13Data(r)
		if sLo, sHi, mx, ok := c13Ref(d); ok {
			sets = append(sets, set{d, sLo, sHi, mx})
		}
	}
	var wg sync.WaitGroup
	bad := make([]string, G)
	for g := 0; g < G; g++ {
		cfg := configuration.FanConfig{ID: uniqueId("c13conc"), NeverStop: g%2 == 0,
			HwMon: &configuration.HwMonFanConfig{Platform: "x", Index: 1, PwmPath: "/nonexistent/pwm1", RpmInputPath: "/nonexistent/fan1_input", PwmEnablePath: "/nonexistent/pwm1_enable"}}
		fan, err := fans.NewFan(cfg)
		if err != nil {
			ctx.Inconclusive("NewFan: " + err.Error())
			return
		}
		wg.Add(1)
		go func(g int, fan fans.Fan) {
			defer wg.Done()
			for i := 0; i < N && bad[g] == ""; i++ {
				st := sets[(g+i)%len(sets)]
				m := map[int]float64{}
				for k, v := range st.d {
					m[k] = v
				}
				p, msg := Guard(func() { _ = fan.AttachFanRpmCurveData(&m) })
				if p {
					bad[g] = "panic: " + firstLine(msg)
					return
				}
				start, mx := fan.GetStartPwm(), fan.GetMaxPwm()
				if (start != st.sLo && start != st.sHi) || mx != st.mx {
					bad[g] = fmt.Sprintf("attachment %d of fan %d: start %d max %d, its own data give start %d (or %d) max %d", i, g, start, mx, st.sHi, st.sLo, st.mx)
				}
			}
		}(g, fan)
	}
	wg.Wait()
	ctx.Eval(G * N)
	for _, b := range bad {
		if b != "" {
			ctx.Violation("concurrent-attach:limits-do-not-follow-the-fans-own-data", b+fmt.Sprintf(" (%d fans attaching from their own goroutines)", G), nil)
			return
		}
	}
	ctx.Nontrivial("concurrent-attach|" + hash64(jsonStr(sets[0].d)))
}

func init() {
	register("C13", func(ctx *Ctx) {
		r := ctx.Rng
		cfgs := func(c *c13Case, bits int) {
			if bits&1 != 0 {
				c.CfgMin = iptr(pick(r, 0, 1, 30, 255, r.Intn(256)))
			}
			if bits&2 != 0 {
				c.CfgStart = iptr(pick(r, 0, 1, 40, 254, 255, r.Intn(256)))
			}
			if bits&4 != 0 {
				c.CfgMax = iptr(pick(r, 0, 1, 200, 255, r.Intn(256)))
			}
		}
		// exhaustive part: curves on <= 4 of 6 fixed keys with RPM from a fixed value set
		if ctx.Batch == 0 {
			keys := []int{0, 1, 63, 128, 254, 255}
			vals := []float64{0, 0.4, 1, 500, 500.9, 2000}
			n := 0
			for mask := 1; mask < 1<<len(keys); mask++ {
				var ks []int
				for i, k := range keys {
					if mask&(1<<i) != 0 {
						ks = append(ks, k)
					}
				}
				if len(ks) > 3 && !ctx.Thorough() {
					continue
				}
				if len(ks) > 4 {
					continue
				}
				total := 1
				for range ks {
					total *= len(vals)
				}
				for code := 0; code < total; code++ {
					d := c13Data{}
					x := code
					for _, k := range ks {
						d[k] = vals[x%len(vals)]
						x /= len(vals)
					}
					c := &c13Case{NeverStop: n%2 == 0, Attach: []c13Data{d}}
					cfgs(c, n%8)
					n++
					c13Run(ctx, c)
				}
			}
			ctx.Count("exhaustive_small_curves", int64(n))
		}
		nr := ctx.N(300000, 4000000)
		for i := 0; i < nr; i++ {
			c := &c13Case{NeverStop: r.Intn(3) > 0}
			if i%16 == 7 {
				c.Kind = pick(r, "file", "cmd")
				c.NeverStop = r.Intn(2) == 0
			}
			cfgs(c, r.Intn(8))
			k := 1 + r.Intn(4)
			for j := 0; j < k; j++ {
				switch r.Intn(12) {
				case 0:
					c.Attach = append(c.Attach, nil)
				case 1:
					c.Attach = append(c.Attach, c13Data{})
				default:
					c.Attach = append(c.Attach, genC13Data(r))
				}
			}
			if i < 3 {
				ctx.Sample(c)
			}
			c13Run(ctx, c)
			if i%1000 == 500 {
				c13ConfigPath(ctx, i)
			}
			if i%4000 == 700 {
				c13Tachless(ctx, r)
			}
			if i%4000 == 1700 {
				c13ConcurrentAttach(ctx, r)
			}
		}
	})
}
