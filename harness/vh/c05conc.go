package main

import (
	"fmt"
	"os"
	"path/filepath"
	"strconv"
	"strings"
	"sync"
	"time"

	"github.com/markusressel/fan2go/internal/configuration"
	"github.com/markusressel/fan2go/internal/control_loop"
	"github.com/markusressel/fan2go/internal/fans"
)

// c05Concurrent: a cmd fan whose getPwm / getRpm commands take a while (ipmitool-like), with the RPM monitor polling it
// from its own goroutine as in the daemon while the control cycles run. Interference written between two cycles must be
// put right and counted by the next cycle, whatever query of the monitor happens to be in flight.
func c05Concurrent(ctx *Ctx) {
	dir := ctx.Path("c05conc")
	_ = os.MkdirAll(dir, 0755)
	defer os.RemoveAll(dir)
	ctx.LogCase(map[string]interface{}{"class": "concurrent-rpm-monitor:process-died"})
	pwmFile := filepath.Join(dir, "pwm")
	_ = os.WriteFile(pwmFile, []byte("77\n"), 0644)
	cmdScript(filepath.Join(dir, "set.sh"), "echo \"$1\" > "+pwmFile+".tmp && mv "+pwmFile+".tmp "+pwmFile)
	// the tool samples the value first and takes its time to answer
	cmdScript(filepath.Join(dir, "get.sh"), "v=$(cat "+pwmFile+"); sleep 0.15; echo $v")
	cmdScript(filepath.Join(dir, "rpm.sh"), "echo 1200")
	curve := newScriptCurve()
	fan, err := fans.NewFan(configuration.FanConfig{ID: uniqueId("c05cfan"), Curve: curve.Id, Cmd: &configuration.CmdFanConfig{
		SetPwm: &configuration.ExecConfig{Exec: filepath.Join(dir, "set.sh"), Args: []string{"%pwm%"}},
		GetPwm: &configuration.ExecConfig{Exec: filepath.Join(dir, "get.sh")},
		GetRpm: &configuration.ExecConfig{Exec: filepath.Join(dir, "rpm.sh")}}})
	if err != nil {
		ctx.Inconclusive("concurrent rpm monitor: " + err.Error())
		return
	}
	ctrl := newController(fan, control_loop.NewDirectControlLoop(nil), newMemPersistence(), identityMap())
	stop := make(chan struct{})
	var wg sync.WaitGroup
	wg.Add(1)
	go func() {
		defer wg.Done()
		for {
			select {
			case <-stop:
				return
			default:
				ctrl.VerifMeasureRpm()
			}
		}
	}()
	defer func() { close(stop); wg.Wait() }()
	read := func() int {
		b, _ := os.ReadFile(pwmFile)
		n, _ := strconv.Atoi(strings.TrimSpace(string(b)))
		return n
	}
	targets := []int{100, 150, 150, 30, 200, 0, 60}
	for k, t := range targets {
		curve.Val = t
		if err := ctrl.UpdateFanSpeed(); err != nil {
			ctx.Violation("concurrent-rpm-monitor:control-error", err.Error(), nil)
			return
		}
		if got := read(); got != t {
			ctx.Violation("concurrent-rpm-monitor:fan-not-at-target", fmt.Sprintf("round %d: target %d, fan holds %d", k, t, got), nil)
			return
		}
		// let the monitor finish a query that began after the write, so that whatever it caches is the target
		time.Sleep(350 * time.Millisecond)
		foreign := (t + 70) % 256
		before := ctrl.GetStatistics().UnexpectedPwmValueCount
		_ = os.WriteFile(pwmFile+".x", []byte(strconv.Itoa(foreign)+"\n"), 0644)
		_ = os.Rename(pwmFile+".x", pwmFile)
		if err := ctrl.UpdateFanSpeed(); err != nil {
			ctx.Violation("concurrent-rpm-monitor:control-error", err.Error(), nil)
			return
		}
		ctx.Eval(2)
		after := ctrl.GetStatistics().UnexpectedPwmValueCount
		if got := read(); got != t {
			ctx.Violation("concurrent-rpm-monitor:interference-not-undone-by-the-next-cycle", fmt.Sprintf("round %d: target %d, a third party wrote %d, after the next cycle the fan holds %d (cmd fan with slow getPwm, RPM monitor polling concurrently)", k, t, foreign, got), nil)
			return
		}
		if after-before != 1 {
			ctx.Violation("concurrent-rpm-monitor:pwm-change-not-counted-once", fmt.Sprintf("round %d: target %d, a third party wrote %d: counter +%d", k, t, foreign, after-before), nil)
			return
		}
	}
	ctx.Nontrivial("concurrent-rpm-monitor|cmd")
}
