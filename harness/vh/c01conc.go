package main

import (
	"fmt"
	"os"
	"path/filepath"
	"strconv"
	"strings"
	"sync"

	"github.com/markusressel/fan2go/internal/configuration"
	"github.com/markusressel/fan2go/internal/control_loop"
	"github.com/markusressel/fan2go/internal/fans"
	"github.com/markusressel/fan2go/internal/util"
)

// c01Concurrent: several fans regulated at the same time, as in the daemon (one goroutine per controller), on real files
// and without the virtual driver (whose lock would serialise the accesses). After every cycle a fan's own control file
// must hold the value its own controller asked for, inside that fan's limits.
func c01Concurrent(ctx *Ctx) {
	saved := util.VerifDriver
	util.VerifDriver = nil
	defer func() { util.VerifDriver = saved }()
	r := ctx.Rng
	dir := ctx.Path("c01conc")
	_ = os.MkdirAll(dir, 0755)
	defer os.RemoveAll(dir)
	ctx.LogCase(map[string]interface{}{"class": "concurrent-fans:process-died"})
	const n = 6
	type unit struct {
		kind     string
		pwm      string
		min, max int
		fan      fans.Fan
		curve    *ScriptCurve
	}
	var us []*unit
	for i := 0; i < n; i++ {
		u := &unit{kind: pick(r, "hwmon", "hwmon", "file"), pwm: filepath.Join(dir, fmt.Sprintf("pwm%d", i))}
		_ = os.WriteFile(u.pwm, []byte("0\n"), 0644)
		u.curve = newScriptCurve()
		if u.kind == "hwmon" {
			u.min = pick(r, 0, 7, 40, 100, 101)
			u.max = u.min + pick(r, 5, 60, 99, 154)
			if u.max > 255 {
				u.max = 255
			}
			en := u.pwm + "_enable"
			_ = os.WriteFile(en, []byte("2\n"), 0644)
			f, err := fans.NewFan(configuration.FanConfig{ID: uniqueId("c01cfan"), Curve: u.curve.Id, NeverStop: true, MinPwm: iptr(u.min), MaxPwm: iptr(u.max),
				HwMon: &configuration.HwMonFanConfig{Platform: "c01", Index: i + 1, PwmPath: u.pwm, PwmEnablePath: en, RpmInputPath: filepath.Join(dir, "nonexistent")}})
			if err != nil {
				ctx.Inconclusive("concurrent fans: " + err.Error())
				return
			}
			u.fan = f
		} else {
			u.min, u.max = 0, 255
			f, err := fans.NewFan(configuration.FanConfig{ID: uniqueId("c01cfan"), Curve: u.curve.Id, File: &configuration.FileFanConfig{Path: u.pwm}})
			if err != nil {
				ctx.Inconclusive("concurrent fans: " + err.Error())
				return
			}
			u.fan = f
		}
		us = append(us, u)
	}
	cycles := ctx.N(4000, 40000) * ctx.Of // the whole budget of the tier in this one batch
	var mu sync.Mutex
	var wg sync.WaitGroup
	for i, u := range us {
		wg.Add(1)
		go func(i int, u *unit) {
			defer wg.Done()
			ctrl := newController(u.fan, control_loop.NewDirectControlLoop(nil), newMemPersistence(), identityMap())
			vals := []int{0, 255, 9, 10, 99, 100, 101, 200, 5, 250}
			for k := 0; k < cycles; k++ {
				u.curve.Val = vals[(k*7+i*3)%len(vals)]
				err := ctrl.UpdateFanSpeed()
				req, has := ctrl.VerifLastSetPwm()
				raw, rerr := os.ReadFile(u.pwm)
				got, perr := strconv.Atoi(strings.TrimSpace(string(raw)))
				mu.Lock()
				ctx.Eval(1)
				bad := ""
				switch {
				case err != nil:
					bad = "control cycle failed: " + err.Error()
				case rerr != nil || perr != nil:
					bad = fmt.Sprintf("control file unreadable or not a number: %q", trunc(string(raw)))
				case got < u.min || got > u.max:
					bad = fmt.Sprintf("control file holds %d, limits %d..%d", got, u.min, u.max)
				case has && got != req:
					bad = fmt.Sprintf("control file holds %d, this fan's controller asked for %d", got, req)
				}
				if bad != "" {
					ctx.Violation("concurrent-fans:own-control-file-does-not-hold-own-request:"+u.kind, fmt.Sprintf("fan %d (%s, limits %d..%d), cycle %d of %d fans regulated concurrently: %s", i, u.kind, u.min, u.max, k, n, bad), nil)
					mu.Unlock()
					return
				}
				mu.Unlock()
			}
		}(i, u)
	}
	wg.Wait()
	ctx.Nontrivial(fmt.Sprintf("concurrent-fans|%d", n))
	ctx.Count("concurrent_fan_cycles", int64(cycles*n))
}
