package main

import (
	"fmt"
	"math/rand"
	"os"
	"path/filepath"
	"strconv"
	"strings"
	"time"
	"runtime"
	"sort"
	"sync"
	"sync/atomic"

	"github.com/markusressel/fan2go/internal/configuration"
	"github.com/markusressel/fan2go/internal/control_loop"
	"github.com/markusressel/fan2go/internal/fans"
	"github.com/markusressel/fan2go/internal/curves"
)

// C07 — hotter never means slower.
//
// Curves: the smoothed temperature is swept upward over a dense grid (1 m-degree
// steps within +-200 m-degree of every step boundary, 100 m-degree elsewhere,
// from 5 degrees below the lowest to 5 degrees above the highest boundary); the
// output sequence must be non-decreasing (pairwise check over the sweep order,
// every grid pair is covered by transitivity). Controller: with the direct
// algorithm the map curve value -> (request, written) must be non-decreasing.

func sweepGrid(bounds []int) []float64 {
	sort.Ints(bounds)
	lo := float64(bounds[0]-5) * 1000
	hi := float64(bounds[len(bounds)-1]+5) * 1000
	var out []float64
	t := lo
	for t <= hi {
		out = append(out, t)
		step := 100.0
		for _, b := range bounds {
			m := float64(b) * 1000
			if t >= m-200 && t < m+200 {
				step = 1
			}
		}
		t += step
	}
	return out
}

type c07Member struct {
	curve  curves.SpeedCurve
	sensor *ScriptSensor
	bounds []int
	desc   interface{}
}

func genMonotoneLinear(r *rand.Rand, sensor *ScriptSensor) c07Member {
	if sensor == nil {
		sensor = newScriptSensor(0)
	}
	if r.Intn(2) == 0 {
		mn := r.Intn(140) - 20
		mx := mn + 1 + r.Intn(100)
		if r.Intn(6) == 0 {
			mx = mn + 1
		}
		c := mkCurve(configuration.CurveConfig{ID: uniqueId("lin"), Linear: &configuration.LinearCurveConfig{Sensor: sensor.Id, Min: mn, Max: mx}})
		return c07Member{c, sensor, []int{mn, mx}, map[string]int{"min": mn, "max": mx}}
	}
	pts := genSteps(r, true)
	// keep the sweep affordable
	for i := range pts {
		if pts[i].T > 200 {
			pts[i].T = 130 + i
		}
		if pts[i].T < -60 {
			pts[i].T = -60 - i
		}
	}
	sort.Slice(pts, func(i, j int) bool { return pts[i].T < pts[j].T })
	// temperatures must stay distinct after the squeeze
	m := stepsMap(pts)
	var clean []stepPoint
	var ts []int
	for t := range m {
		ts = append(ts, t)
	}
	sort.Ints(ts)
	prev := -1.0
	for _, t := range ts {
		v := m[t]
		if v < prev {
			v = prev
		}
		prev = v
		clean = append(clean, stepPoint{t, v})
	}
	c := mkCurve(configuration.CurveConfig{ID: uniqueId("lin"), Linear: &configuration.LinearCurveConfig{Sensor: sensor.Id, Steps: stepsMap(clean)}})
	return c07Member{c, sensor, ts, clean}
}

var c07FnTypes = []string{configuration.FunctionSum, configuration.FunctionMaximum, configuration.FunctionMinimum, configuration.FunctionAverage}

func c07Sweep(ctx *Ctx, kind string, top curves.SpeedCurve, sensorsToMove []*ScriptSensor, bounds []int, desc interface{}) {
	grid := sweepGrid(append([]int(nil), bounds...))
	prev := -1
	var prevT float64
	rose := false
	for _, t := range grid {
		for _, s := range sensorsToMove {
			s.Avg = t
		}
		var v int
		var err error
		panicked, msg := Guard(func() { v, err = top.Evaluate() })
		ctx.Eval(1)
		if panicked || err != nil {
			ctx.Violation("curve-sweep:panic-or-error:"+kind, fmt.Sprintf("%s at %v: %v %s", jsonStr(desc), t, err, msg), desc)
			return
		}
		if v < prev {
			ctx.Violation("hotter-means-slower:"+kind, fmt.Sprintf("%s: value %d at %.3f degrees but %d at %.3f degrees", jsonStr(desc), prev, prevT/1000, v, t/1000),
				map[string]interface{}{"curve": desc, "t1_mdeg": prevT, "t2_mdeg": t})
			return
		}
		if prev >= 0 && v > prev {
			rose = true
		}
		prev, prevT = v, t
	}
	if rose {
		ctx.Nontrivial(kind + "|" + hash64(jsonStr(desc)))
	}
}

func c07Curves(ctx *Ctx) {
	r := ctx.Rng
	switch r.Intn(3) {
	case 0:
		m := genMonotoneLinear(r, nil)
		ctx.SampleKind("linear", map[string]interface{}{"kind": "linear", "curve": m.desc, "sweep": "5 degrees below lowest to 5 above highest boundary"})
		c07Sweep(ctx, "linear", m.curve, []*ScriptSensor{m.sensor}, m.bounds, m.desc)
	default:
		// function tree over monotone members; members share one sensor or have their own
		shared := newScriptSensor(0)
		var members []c07Member
		var build func(depth int) (curves.SpeedCurve, interface{})
		build = func(depth int) (curves.SpeedCurve, interface{}) {
			if depth == 0 || r.Intn(3) == 0 {
				var s *ScriptSensor
				if r.Intn(2) == 0 {
					s = shared
				}
				m := genMonotoneLinear(r, s)
				members = append(members, m)
				return m.curve, m.desc
			}
			typ := pick(r, c07FnTypes...)
			k := 1 + r.Intn(4)
			var ids []string
			var ds []interface{}
			for i := 0; i < k; i++ {
				c, d := build(depth - 1)
				ids = append(ids, c.GetId())
				ds = append(ds, d)
			}
			return mkCurve(configuration.CurveConfig{ID: uniqueId("fn"), Function: &configuration.FunctionCurveConfig{Type: typ, Curves: ids}}), map[string]interface{}{typ: ds}
		}
		top, desc := build(1 + r.Intn(3))
		if len(members) == 0 {
			return
		}
		var bounds []int
		sensorSet := map[*ScriptSensor]bool{}
		for _, m := range members {
			bounds = append(bounds, m.bounds...)
			sensorSet[m.sensor] = true
		}
		var all []*ScriptSensor
		for s := range sensorSet {
			all = append(all, s)
		}
		ctx.SampleKind("function", map[string]interface{}{"kind": "function tree over monotone linear members", "tree": desc})
		if r.Intn(2) == 0 || len(all) == 1 {
			// all sensors move together along one temperature axis
			c07Sweep(ctx, "function-together", top, all, bounds, desc)
		} else {
			// raise one sensor, others fixed at random temperatures
			mover := all[r.Intn(len(all))]
			for _, s := range all {
				s.Avg = float64(r.Intn(120000) - 10000)
			}
			c07Sweep(ctx, "function-one-sensor-rises", top, []*ScriptSensor{mover}, bounds, desc)
		}
	}
}

// c07History: the same curve object evaluated along a temperature history - slow drifts in steps below one
// millidegree (the tail of the moving average), reversals, jumps. Whatever the order of the evaluations, of any two of
// them the one at the higher temperature must not have the lower value.
func c07History(ctx *Ctx) {
	r := ctx.Rng
	m := genMonotoneLinear(r, nil)
	top, desc := m.curve, m.desc
	kind := "linear"
	if r.Intn(2) == 0 {
		typ := pick(r, c07FnTypes...)
		m2 := genMonotoneLinear(r, m.sensor)
		top = mkCurve(configuration.CurveConfig{ID: uniqueId("fn"), Function: &configuration.FunctionCurveConfig{Type: typ, Curves: []string{m.curve.GetId(), m2.curve.GetId()}}})
		desc = map[string]interface{}{typ: []interface{}{m.desc, m2.desc}}
		kind = "function"
	}
	sort.Ints(m.bounds)
	lo, hi := float64(m.bounds[0]-3)*1000, float64(m.bounds[len(m.bounds)-1]+3)*1000
	t := lo + r.Float64()*(hi-lo)
	type obs struct {
		t float64
		v int
	}
	var seen []obs
	for phase := 0; phase < 12; phase++ {
		step := pick(r, 0.3, 0.45, 0.9, 0.999, 1, 7, 250, 4000)
		if r.Intn(2) == 0 {
			step = -step
		}
		n := pick(r, 50, 400, 3000)
		if step >= 250 || step <= -250 {
			n = 20
		}
		for i := 0; i < n; i++ {
			t += step
			if t < lo || t > hi {
				step = -step
				t += 2 * step
			}
			m.sensor.Avg = t
			var v int
			var err error
			panicked, msg := Guard(func() { v, err = top.Evaluate() })
			ctx.Eval(1)
			if panicked || err != nil {
				ctx.Violation("curve-history:panic-or-error:"+kind, fmt.Sprintf("%s at %v: %v %s", jsonStr(desc), t, err, msg), desc)
				return
			}
			seen = append(seen, obs{t, v})
		}
	}
	order := make([]int, len(seen))
	for i := range order {
		order[i] = i
	}
	sort.SliceStable(order, func(a, b int) bool { return seen[order[a]].t < seen[order[b]].t })
	rose := false
	for k := 1; k < len(order); k++ {
		a, b := seen[order[k-1]], seen[order[k]]
		if b.v < a.v {
			ctx.Violation("hotter-means-slower:within-a-history:"+kind, fmt.Sprintf("%s: evaluation no. %d gave %d at %.4f degrees, evaluation no. %d gave %d at %.4f degrees", jsonStr(desc), order[k-1], a.v, a.t/1000, order[k], b.v, b.t/1000),
				map[string]interface{}{"curve": desc})
			return
		}
		if b.v > a.v {
			rose = true
		}
	}
	if rose {
		ctx.Nontrivial("history:" + kind + "|" + hash64(jsonStr(desc)))
	}
}

// controller part: curve value -> (request, written) non-decreasing with the direct algorithm
func c07Controller(ctx *Ctx) {
	r := ctx.Rng
	fan, _, _ := genFan(r, []string{"hwmon", "hwmon", "file", "sim"})
	fan.HasPwm = true
	sc := &Scenario{Fan: fan, Loop: LoopSpec{Kind: "direct"}, Window: 10, Plant: PlantSpec{Kind: "const", Const: 1200}, InitPwm: r.Intn(256), InitMode: 1, PriorRpm: 1200}
	sc.Map = genMap(r, fan.Kind != "sim")
	order := make([]int, 256)
	for i := range order {
		order[i] = i
	}
	for _, c := range order {
		sc.Steps = append(sc.Steps, CycleStep{Curve: c, DtMs: 200, Polls: 1})
	}
	ctx.SampleKind("controller", map[string]interface{}{"kind": "controller sweep curve 0..255", "fan": sc.Fan.Kind, "map": sc.Map.Kind, "neverStop": sc.Fan.NeverStop})
	prevReq, prevW := -1, -1
	rose := false
	runScenario(ctx, sc, func(w *World, rec *CycleRecord) bool {
		ctx.Eval(1)
		if rec.Panic != "" || rec.Err != nil || !rec.HasRequest {
			if rec.Panic != "" {
				ctx.Violation("controller-sweep:panic", rec.Panic, sc)
			}
			return true
		}
		written := rec.DevPwmAfter
		if rec.Request < prevReq {
			ctx.Violation("controller:request-decreases-with-curve:"+sc.Fan.Label()+":"+sc.Map.Kind, fmt.Sprintf("curve %d -> request %d, curve %d -> request %d", rec.Step.Curve-1, prevReq, rec.Step.Curve, rec.Request), sc)
			return true
		}
		if w.PwmMap != nil && written < prevW {
			ctx.Violation("controller:written-decreases-with-curve:"+sc.Fan.Label()+":"+sc.Map.Kind, fmt.Sprintf("curve %d -> written %d, curve %d -> written %d", rec.Step.Curve-1, prevW, rec.Step.Curve, written), sc)
			return true
		}
		if prevReq >= 0 && rec.Request > prevReq {
			rose = true
		}
		prevReq, prevW = rec.Request, written
		return false
	})
	if rose {
		ctx.Nontrivial("controller|" + hash64(jsonStr(sc.Fan)+jsonStr(sc.Map)))
	}
	// second form: the same prior state (fan reporting a given PWM, controller fresh), every curve value: the value the
	// fan holds after one cycle must be non-decreasing in the curve value. Start values: keys and outputs of the map.
	m := sc.Map.build()
	if m == nil || sc.Fan.Kind == "cmd" || r.Intn(3) > 0 {
		return
	}
	cand := map[int]bool{r.Intn(256): true}
	for k, v := range m {
		if len(cand) < 6 {
			cand[k], cand[v] = true, true
		}
	}
	limited := LoopSpec{Kind: "direct"}
	if r.Intn(2) == 0 {
		// the direct algorithm with the documented per-cycle limit: from one state the step is bounded, never reversed
		limited = LoopSpec{Kind: "ratelimit", M: pick(r, 1, 5, 10, 40, 1+r.Intn(100))}
	}
	for d0 := range cand {
		prevW, prevC := -1, -1
		for c := 0; c <= 255; c++ {
			one := *sc
			one.Loop = limited
			one.InitPwm = d0
			one.Steps = []CycleStep{{Curve: c, DtMs: 200, Polls: 0}}
			written := -1
			runScenario(ctx, &one, func(w *World, rec *CycleRecord) bool {
				ctx.Eval(1)
				if rec.Panic == "" && rec.Err == nil {
					written = rec.DevPwmAfter
				}
				return true
			})
			if written < 0 {
				break
			}
			if written < prevW {
				ctx.Violation("controller:written-decreases-with-curve-from-same-state:"+sc.Fan.Label()+":"+sc.Map.Kind+":"+limited.Kind,
					fmt.Sprintf("fan reporting %d before the cycle: curve %d -> fan at %d, curve %d -> fan at %d; map %v", d0, prevC, prevW, c, written, m), map[string]interface{}{"scenario": sc, "fanReports": d0, "curve1": prevC, "curve2": c})
				return
			}
			prevW, prevC = written, c
		}
	}
}

// c07SharedCurve: one function curve object is the curve of several fans, so several control loops evaluate it from
// their own goroutines (the documented "case fans follow maximum(cpu, gpu)"). While the temperatures only rise, the
// values each of them obtains must not fall.
func c07SharedCurve(ctx *Ctx) {
	r := ctx.Rng
	sens := []*ScriptSensor{newScriptSensor(20000), newScriptSensor(25000), newScriptSensor(30000)}
	var ids []string
	var ds []interface{}
	for i, k := 0, 3+r.Intn(5); i < k; i++ {
		m := genMonotoneLinear(r, sens[r.Intn(len(sens))])
		ids = append(ids, m.curve.GetId())
		ds = append(ds, m.desc)
	}
	typ := pick(r, c07FnTypes...)
	top := mkCurve(configuration.CurveConfig{ID: uniqueId("fn"), Function: &configuration.FunctionCurveConfig{Type: typ, Curves: ids}})
	if r.Intn(2) == 0 {
		// ... also reached through a second function curve
		extra := genMonotoneLinear(r, sens[0])
		top2 := mkCurve(configuration.CurveConfig{ID: uniqueId("fn"), Function: &configuration.FunctionCurveConfig{Type: pick(r, c07FnTypes...), Curves: []string{top.GetId(), extra.curve.GetId()}}})
		_ = top2
		ids = append(ids, "(nested)")
		top = top2
	}
	desc := map[string]interface{}{"kind": "shared function curve evaluated by 4 goroutines while the temperatures rise", "type": typ, "members": ds}
	ctx.SampleKind("shared-curve", desc)
	var stop atomic.Bool
	var wg, wr sync.WaitGroup
	wr.Add(1)
	go func() {
		defer wr.Done()
		steps := []float64{0, 1, 250, 1000, 0.5, 5000}
		for i := 0; !stop.Load(); i++ {
			s := sens[i%len(sens)]
			if s.Avg < 140000 {
				s.Avg += steps[i%len(steps)]
			}
			if i%64 == 0 {
				runtime.Gosched()
			}
		}
	}()
	const G, N = 4, 2500
	type drop struct {
		at, from, to int
		panicMsg     string
	}
	drops := make([]*drop, G)
	for g := 0; g < G; g++ {
		wg.Add(1)
		go func(g int) {
			defer wg.Done()
			prev := -1 << 30
			for i := 0; i < N; i++ {
				var v int
				var err error
				if p, msg := Guard(func() { v, err = top.Evaluate() }); p {
					drops[g] = &drop{at: i, panicMsg: msg}
					return
				}
				if err != nil {
					continue
				}
				if v < prev {
					drops[g] = &drop{at: i, from: prev, to: v}
					return
				}
				prev = v
			}
		}(g)
	}
	wg.Wait()
	stop.Store(true)
	wr.Wait()
	ctx.Eval(G * N)
	for g, d := range drops {
		if d == nil {
			continue
		}
		if d.panicMsg != "" {
			ctx.Violation("shared-curve:panic-in-concurrent-evaluation:"+typ, fmt.Sprintf("goroutine %d, evaluation %d: %s", g, d.at, d.panicMsg), desc)
		} else {
			ctx.Violation("shared-curve:value-falls-while-temperatures-only-rise:"+typ, fmt.Sprintf("goroutine %d of %d evaluating the same curve object: evaluation %d returned %d after %d; %s", g, G, d.at, d.to, d.from, jsonStr(desc)), desc)
		}
		return
	}
	ctx.Count("concurrent_evaluations_of_a_shared_curve", G*N)
	ctx.Nontrivial("shared-curve|" + typ + "|" + fmt.Sprint(len(ids)))
}

// c07SlowSetTool: a cmd fan whose set tool answers slowly once (a busy bus: 1.3 s, inside fan2go's 2 s limit) while the
// temperature keeps rising. Linear curve, direct algorithm, identity map: the value the device holds - sampled until
// every started tool has had time to finish - never falls.
func c07SlowSetTool(ctx *Ctx) {
	installClock()
	dir := ctx.Path(uniqueId("c07slow"))
	_ = os.MkdirAll(dir, 0755)
	defer os.RemoveAll(dir)
	ctx.LogCase(map[string]interface{}{"class": "slow-set-tool:process-died"})
	pwmFile := filepath.Join(dir, "pwm")
	_ = os.WriteFile(pwmFile, []byte("0\n"), 0644)
	cmdScript(filepath.Join(dir, "set.sh"), "if [ -e "+dir+"/slow ]; then rm -f "+dir+"/slow; sleep 1.3; fi; echo \"$1\" > "+pwmFile+".tmp.$$ && mv "+pwmFile+".tmp.$$ "+pwmFile)
	cmdScript(filepath.Join(dir, "get.sh"), "cat "+pwmFile)
	curve := newScriptCurve()
	fan, err := fans.NewFan(configuration.FanConfig{ID: uniqueId("c07slowfan"), Curve: curve.Id, Cmd: &configuration.CmdFanConfig{
		SetPwm: &configuration.ExecConfig{Exec: filepath.Join(dir, "set.sh"), Args: []string{"%pwm%"}},
		GetPwm: &configuration.ExecConfig{Exec: filepath.Join(dir, "get.sh")}}})
	if err != nil {
		ctx.Inconclusive("slow set tool: " + err.Error())
		return
	}
	ctrl := newController(fan, control_loop.NewDirectControlLoop(nil), newMemPersistence(), identityMap())
	read := func() int {
		b, _ := os.ReadFile(pwmFile)
		n, _ := strconv.Atoi(strings.TrimSpace(string(b)))
		return n
	}
	high := 0
	var seen []int
	sample := func() (fell bool) {
		v := read()
		if len(seen) == 0 || seen[len(seen)-1] != v {
			seen = append(seen, v)
		}
		if v < high {
			return true
		}
		high = v
		return false
	}
	fell := false
	for k, c := range []int{60, 120, 190, 190, 191} {
		if k == 1 {
			_ = os.WriteFile(filepath.Join(dir, "slow"), []byte("1"), 0644)
		}
		curve.Val = c
		_ = ctrl.UpdateFanSpeed()
		ctx.Eval(1)
		fell = fell || sample()
	}
	for t0 := time.Now(); time.Since(t0) < 1500*time.Millisecond; time.Sleep(20 * time.Millisecond) {
		fell = fell || sample()
	}
	if fell {
		ctx.Violation("slow-set-tool:device-pwm-falls-while-the-curve-value-only-rises", fmt.Sprintf("cmd fan, set tool slow once (1.3 s) at the second of the curve values 60, 120, 190, 190, 191: the device held %v", seen), nil)
		return
	}
	ctx.Nontrivial("slow-set-tool")
}

func init() {
	register("C07", func(ctx *Ctx) {
		if ctx.Batch%8 == 3 {
			c07SlowSetTool(ctx)
		}
		for i, ns := 0, ctx.N(32, 320); i < ns; i++ {
			c07SharedCurve(ctx)
		}
		n := ctx.N(6000, 60000)
		for k := 0; k < n; k++ {
			if k%4 == 3 {
				c07Controller(ctx)
			} else if k%16 == 5 {
				c07History(ctx)
			} else {
				c07Curves(ctx)
			}
		}
	})
}
