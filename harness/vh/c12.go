package main

import (
	"os"
	"path/filepath"
	"fmt"
	"sort"

	"github.com/markusressel/fan2go/internal/util"
)

// C12 — the fan receives the nearest value it supports.
//
// For every generated PWM map and every request in -50..305 the real
// controller's setPwm is driven against a SimFan without PWM read-back (so no
// write is skipped); the value the fan receives must be map[k*] for a supported
// input k* at minimal distance from the request. Reference: O(n) scan.

var c12Universe12 = []int{0, 1, 2, 3, 63, 64, 127, 128, 191, 253, 254, 255}
var c12Universe8 = []int{0, 1, 2, 64, 127, 128, 254, 255}

func c12CheckMap(ctx *Ctx, m map[int]int, kind string) {
	sim := &SimFan{Id: uniqueId("c12fan"), CurveId: c12Curve.Id, Max: 255, HasPwm: false}
	c := newController(sim, LoopSpec{Kind: "direct"}.build(), newMemPersistence(), m)
	supp := refSupported(m)
	// the controller's own list of supported inputs must be the reference one
	got := c.VerifDistinct()
	if fmt.Sprint(got) != fmt.Sprint(supp) {
		ctx.Violation("supported-inputs-differ:"+kind, fmt.Sprintf("map %v: controller %v reference %v", m, got, supp), map[string]interface{}{"map": m})
		return
	}
	for r := -50; r <= 305; r++ {
		sim.Calls = sim.Calls[:0]
		sim.PwmVal = -1
		var err error
		panicked, msg := Guard(func() { err = c.VerifSetPwm(r) })
		ctx.Eval(1)
		if panicked {
			ctx.Violation("panic-in-setPwm:"+kind, fmt.Sprintf("map %v request %d: %s", m, r, msg), map[string]interface{}{"map": m, "request": r})
			return
		}
		if err != nil || len(sim.Calls) != 1 {
			ctx.Violation("no-single-write:"+kind, fmt.Sprintf("map %v request %d: err=%v calls=%v", m, r, err, sim.Calls), map[string]interface{}{"map": m, "request": r})
			return
		}
		near := refNearest(supp, r)
		ok := false
		for _, k := range near {
			if sim.PwmVal == m[k] {
				ok = true
			}
		}
		if !ok {
			cls := "inside"
			if r < supp[0] {
				cls = "below-smallest"
			} else if r > supp[len(supp)-1] {
				cls = "above-largest"
			} else if len(near) == 2 {
				cls = "equidistant"
			} else if near[0] == r {
				cls = "exact"
			}
			ctx.Violation("not-nearest-supported:"+cls, fmt.Sprintf("%s map %v request %d: fan received %d, nearest supported inputs %v", kind, m, r, sim.PwmVal, near), map[string]interface{}{"map": m, "request": r})
			return
		}
		if len(near) == 2 {
			ctx.Count("equidistant_requests", 1)
		}
	}
	// second pass: a fan WITH PWM read-back (the controller may skip the write when the fan already reports the
	// target value). Whatever the fan reported before, after setPwm it must hold map[k*]. Start values are the
	// places where keys and values can be confused: every key, every output, and neighbours.
	simRB := &SimFan{Id: uniqueId("c12fanrb"), CurveId: c12Curve.Id, Max: 255, HasPwm: true}
	crb := newController(simRB, LoopSpec{Kind: "direct"}.build(), newMemPersistence(), m)
	startSet := map[int]bool{}
	for k, v := range m {
		startSet[k], startSet[v], startSet[v+1], startSet[k-1] = true, true, true, true
	}
	var starts []int
	for v := range startSet {
		if v >= 0 && v <= 255 {
			starts = append(starts, v)
		}
	}
	sort.Ints(starts)
	if len(starts) > 40 {
		// full-size maps: a spread sample keeps the pass affordable
		var sel []int
		for i := 0; i < 40; i++ {
			sel = append(sel, starts[i*len(starts)/40])
		}
		starts = sel
	}
	for _, cur := range starts {
		for r := -50; r <= 305; r++ {
			simRB.PwmVal = cur
			var err error
			panicked, msg := Guard(func() { err = crb.VerifSetPwm(r) })
			ctx.Eval(1)
			if panicked || err != nil {
				ctx.Violation("panic-or-error-in-setPwm:readback:"+kind, fmt.Sprintf("map %v request %d fan at %d: %v %s", m, r, cur, err, msg), map[string]interface{}{"map": m, "request": r, "fanReports": cur})
				return
			}
			ok := false
			for _, k := range refNearest(supp, r) {
				if simRB.PwmVal == m[k] {
					ok = true
				}
			}
			if !ok {
				ctx.Violation("fan-with-readback-not-at-nearest-supported-value", fmt.Sprintf("%s map %v: fan reported %d, request %d: fan holds %d afterwards, nearest supported inputs %v", kind, m, cur, r, simRB.PwmVal, refNearest(supp, r)),
					map[string]interface{}{"map": m, "request": r, "fanReports": cur})
				return
			}
		}
	}
	ctx.Count("readback_start_values", int64(len(starts)))
	if len(supp) >= 2 {
		ctx.Nontrivial(kind + "|" + hash64(fmt.Sprint(m)))
	}
}

var c12Curve *ScriptCurve

// c12RealBackends: the same property on the real fan backends (cmd scripts, file and hwmon devices): a sequence of
// different requests under a sparse or README-style map; after every cycle the device holds the map's output for a
// nearest supported input of that cycle's request.
func c12RealBackends(ctx *Ctx) {
	r := ctx.Rng
	for _, kind := range []string{"cmd", "cmd-writeonly", "file", "file-home", "hwmon"} {
		k, home := homeKind(r, kind)
		if kind == "cmd-writeonly" {
			k = "cmd" // no getPwm command: fan2go cannot read the value back
		}
		sc := &Scenario{Fan: FanSpec{Kind: k, HomePath: home, ViaLoader: r.Intn(3) == 0, HasPwm: kind != "cmd-writeonly", HasEnable: kind == "hwmon", CmdOneTool: k == "cmd" && r.Intn(2) == 0, CmdPadded: k == "cmd" && r.Intn(2) == 0}, Plant: PlantSpec{Kind: "const", Const: 1200}, Loop: LoopSpec{Kind: "direct"},
			Map: pick(r, MapSpec{Kind: "readme"}, MapSpec{Kind: "hundred"}, genMap(r, false), genMap(r, false)), Window: 1, InitPwm: r.Intn(256), InitMode: 2, PriorRpm: 1200}
		n := 40
		if k == "cmd" {
			n = 14
		}
		for i := 0; i < n; i++ {
			st := CycleStep{Curve: pick(r, 0, 255, 45, 110, 205, r.Intn(256), r.Intn(256)), DtMs: 200}
			if (kind == "file" || kind == "file-home") && r.Intn(6) == 0 {
				// the PWM file cannot be replaced during this cycle (bind-mounted file, directory without create permission);
				// writing it in place would work
				st.Fault = &FaultSpec{Target: "pwm", Op: "w", Action: "fail-atomic", Errno: "EBUSY"}
			}
			sc.Steps = append(sc.Steps, st)
		}
		moved := false
		setFailed := false // the set command of the cycle just observed was made to fail
		runScenario(ctx, sc, func(w *World, rec *CycleRecord) bool {
			ctx.Eval(1)
			failedNow := setFailed
			if w.cmdDir != "" {
				// a transient failure of the set command: nothing is demanded of that cycle, the following cycle must
				// bring the fan to its value even if the request did not change
				_ = os.Remove(filepath.Join(w.cmdDir, "setfail"))
				setFailed = r.Intn(5) == 0
				if setFailed {
					_ = os.WriteFile(filepath.Join(w.cmdDir, "setfail"), []byte("1"), 0644)
				}
			}
			if failedNow {
				return rec.Panic != ""
			}
			if rec.Step.Fault != nil && len(rec.PwmWrites) > 0 && rec.PwmWriteErrs == len(rec.PwmWrites) {
				// every write of this cycle was refused: nothing is demanded of it (the next cycle must bring the fan to its value)
				ctx.Count("cycles_whose_only_pwm_write_was_refused", 1)
				return rec.Panic != ""
			}
			if rec.Err != nil || rec.Panic != "" || !rec.HasRequest || w.PwmMap == nil {
				return rec.Panic != ""
			}
			allowed := map[int]bool{}
			for _, key := range refNearest(w.Supp, rec.Request) {
				allowed[w.PwmMap[key]] = true
			}
			if !allowed[rec.DevPwmAfter] {
				ctx.Violation("real-backend:device-not-at-nearest-supported-value:"+kind+":"+sc.Map.Kind, fmt.Sprintf("cycle %d: request %d, the %s fan holds %d, allowed %v (map %s)", rec.Idx, rec.Request, kind, rec.DevPwmAfter, allowed, sc.Map.Kind), sc)
				return true
			}
			if rec.HadPrev && rec.PrevRequest != rec.Request {
				moved = true
			}
			if w.cmdDir != "" {
				// the read-back of the next cycle is sometimes unusable: then the value must be written all the same
				_ = os.Remove(filepath.Join(w.cmdDir, "garble"))
				_ = os.Remove(filepath.Join(w.cmdDir, "flaky"))
				switch r.Intn(4) {
				case 0:
					_ = os.WriteFile(filepath.Join(w.cmdDir, "garble"), []byte("1"), 0644)
				case 1:
					// ... or only every second query of the cycle is (beginning with the second or with the first)
					_ = os.WriteFile(filepath.Join(w.cmdDir, "flaky"), []byte(pick(r, "0", "1")), 0644)
				}
			}
			return false
		})
		if moved {
			ctx.Nontrivial("real-backend|" + kind + "|" + sc.Map.Kind + "|" + hash64(jsonStr(sc.Steps)))
		}
	}
}

// c12PaddedReadback: a cmd fan whose read-back tool prints fixed-width, zero-padded decimals ("064"); requests that are
// the octal / other-base misreadings of the value the fan currently holds must still be written.
func c12PaddedReadback(ctx *Ctx) {
	sc := &Scenario{Fan: FanSpec{Kind: "cmd", HasPwm: true, CmdPadded: true}, Plant: PlantSpec{Kind: "const", Const: 1200}, Loop: LoopSpec{Kind: "direct"},
		Map: MapSpec{Kind: "identity"}, Window: 1, InitPwm: 100, InitMode: 2, PriorRpm: 1200}
	for _, c := range []int{64, 52, 12, 10, 77, 63, 100, 64, 52, 17, 15, 8, 7, 70, 56} {
		sc.Steps = append(sc.Steps, CycleStep{Curve: c, DtMs: 200})
	}
	ok := 0
	runScenario(ctx, sc, func(w *World, rec *CycleRecord) bool {
		ctx.Eval(1)
		if rec.Err != nil || rec.Panic != "" || !rec.HasRequest {
			return rec.Panic != ""
		}
		if rec.DevPwmAfter != rec.Request {
			ctx.Violation("real-backend:device-not-at-nearest-supported-value:cmd-zero-padded-read-back", fmt.Sprintf("cycle %d: request %d, the fan holds %d (it held %d before; its tool prints %03d)", rec.Idx, rec.Request, rec.DevPwmAfter, rec.DevPwmBefore, rec.DevPwmBefore), sc)
			return true
		}
		ok++
		return false
	})
	if ok > 10 {
		ctx.Nontrivial("real-backend|cmd-zero-padded-read-back")
	}
}

// enumerate all maps over the key subset `keys` with a run partition given by
// bits (bit i set = new run starts at key i+1) and strictly increasing outputs
func c12MapFor(keys []int, bits int) map[int]int {
	m := map[int]int{}
	out := 10
	for i, k := range keys {
		if i > 0 && bits&(1<<(i-1)) != 0 {
			out += 17
		}
		m[k] = out
	}
	return m
}

func init() {
	register("C12", func(ctx *Ctx) {
		c12Curve = newScriptCurve()
		universe := c12Universe8
		if ctx.Thorough() {
			universe = c12Universe12
		}
		// exhaustive part: all non-empty key subsets x all run partitions, split over batches
		n := len(universe)
		idx := 0
		maps := 0
		for mask := 1; mask < 1<<n; mask++ {
			var keys []int
			for i := 0; i < n; i++ {
				if mask&(1<<i) != 0 {
					keys = append(keys, universe[i])
				}
			}
			for bits := 0; bits < 1<<(len(keys)-1); bits++ {
				idx++
				if idx%ctx.Of != ctx.Batch {
					continue
				}
				m := c12MapFor(keys, bits)
				if maps < 2 {
					ctx.Sample(map[string]interface{}{"map": m, "requests": "-50..305"})
				}
				maps++
				c12CheckMap(ctx, m, "exhaustive")
			}
		}
		ctx.Count("exhaustive_maps", int64(maps))
		for i := 0; i < ctx.N(24, 240); i++ {
			c12RealBackends(ctx)
			if i%8 == 0 {
				c12Concurrent(ctx)
				c12PaddedReadback(ctx)
			}
		}
		// random part: full-size, non-monotonic, constant, single-entry maps
		nr := ctx.N(6000, 80000)
		for i := 0; i < nr; i++ {
			r := ctx.Rng
			m := map[int]int{}
			kind := pick(r, "fullsize", "nonmonotonic", "constant", "single", "sparse")
			switch kind {
			case "fullsize":
				levels := quantLevels(2 + r.Intn(60))
				for k := 0; k <= 255; k++ {
					m[k] = nearestLevel(levels, k)
				}
			case "nonmonotonic":
				for _, k := range r.Perm(256)[:1+r.Intn(60)] {
					m[k] = r.Intn(256)
				}
			case "constant":
				v := r.Intn(256)
				for _, k := range r.Perm(256)[:1+r.Intn(30)] {
					m[k] = v
				}
			case "single":
				m[r.Intn(256)] = r.Intn(256)
			default:
				sc := genMap(r, false)
				m = sc.build()
				if m == nil {
					m = identityMap()
				}
			}
			c12CheckMap(ctx, m, kind)
		}
		// direct calls of the two helpers against the reference
		nd := ctx.N(40000, 400000)
		for i := 0; i < nd; i++ {
			r := ctx.Rng
			m := map[int]int{}
			for _, k := range r.Perm(256)[:1+r.Intn(20)] {
				m[k] = r.Intn(4)
			}
			keys := util.ExtractKeysWithDistinctValues(m)
			sort.Ints(keys)
			ref := refSupported(m)
			ctx.Eval(1)
			if fmt.Sprint(keys) != fmt.Sprint(ref) {
				ctx.Violation("ExtractKeysWithDistinctValues-differs", fmt.Sprintf("map %v: got %v want %v", m, keys, ref), map[string]interface{}{"map": m})
				continue
			}
			t := r.Intn(356) - 50
			got := util.FindClosest(t, ref)
			okk := false
			for _, k := range refNearest(ref, t) {
				if k == got {
					okk = true
				}
			}
			if !okk {
				ctx.Violation("FindClosest-not-nearest", fmt.Sprintf("arr %v target %d: got %d", ref, t, got), map[string]interface{}{"arr": ref, "target": t})
			}
		}
	})
}
