package main

import (
	"fmt"
	"math"
	"math/rand"
	"sort"
	"sync"
	"sync/atomic"
	"time"

	"github.com/markusressel/fan2go/internal/configuration"
	"github.com/markusressel/fan2go/internal/curves"
	"github.com/markusressel/fan2go/internal/sensors"
)

// C06 — curves evaluate to their documented function, always within 0..255.

func newScriptSensor(avg float64) *ScriptSensor {
	s := &ScriptSensor{Id: uniqueId("vsensor"), Avg: avg, Val: avg}
	sensors.RegisterSensor(s)
	return s
}

func mkCurve(cfg configuration.CurveConfig) curves.SpeedCurve {
	c, err := curves.NewSpeedCurve(cfg)
	if err != nil {
		panic(err)
	}
	curves.RegisterSpeedCurve(c)
	return c
}

// interesting temperatures (in milli-degrees) around a list of boundaries (in degrees)
func tempsAround(r *rand.Rand, bounds []int) []float64 {
	var out []float64
	for _, b := range bounds {
		m := float64(b) * 1000
		out = append(out, m, m-1, m+1, m-0.5, m+0.5, m-999, m+999, m-1000, m+1000, m+float64(r.Intn(2000))-1000)
	}
	out = append(out, 0, math.Copysign(0, -1), 1e-300, -1e-300, 1e300, -1e300, math.MaxFloat64/4, -math.MaxFloat64/4, 1, -1,
		float64(r.Intn(200000)-50000), r.NormFloat64()*40000+40000, r.Float64()*1e6, -r.Float64()*1e6)
	return out
}

type stepPoint struct {
	T int     `json:"t"`
	V float64 `json:"v"`
}

func refSteps(pts []stepPoint, tDeg float64) float64 {
	// pts sorted by T
	if tDeg <= float64(pts[0].T) {
		return pts[0].V
	}
	last := pts[len(pts)-1]
	if tDeg >= float64(last.T) {
		return last.V
	}
	for i := 0; i+1 < len(pts); i++ {
		a, b := pts[i], pts[i+1]
		if tDeg >= float64(a.T) && tDeg < float64(b.T) {
			return a.V + (tDeg-float64(a.T))/(float64(b.T)-float64(a.T))*(b.V-a.V)
		}
	}
	return last.V
}

func genSteps(r *rand.Rand, monotone bool) []stepPoint {
	n := 1 + r.Intn(8)
	seen := map[int]bool{}
	var pts []stepPoint
	for len(pts) < n {
		t := r.Intn(160) - 30
		if r.Intn(6) == 0 {
			t = pick(r, -273, -1, 0, 1, 1000, 100000)
		}
		if seen[t] {
			continue
		}
		seen[t] = true
		v := float64(r.Intn(256))
		if r.Intn(5) == 0 {
			v = r.Float64() * 255
		}
		pts = append(pts, stepPoint{T: t, V: v})
	}
	sort.Slice(pts, func(i, j int) bool { return pts[i].T < pts[j].T })
	if monotone {
		vs := make([]float64, len(pts))
		for i := range pts {
			vs[i] = pts[i].V
		}
		sort.Float64s(vs)
		for i := range pts {
			pts[i].V = vs[i]
		}
		// adjacent / equal speeds now and then
		if len(pts) > 1 && r.Intn(3) == 0 {
			i := 1 + r.Intn(len(pts)-1)
			pts[i].V = pts[i-1].V
		}
	}
	return pts
}

func stepsMap(pts []stepPoint) map[int]float64 {
	m := map[int]float64{}
	for _, p := range pts {
		m[p.T] = p.V
	}
	return m
}

func c06Linear(ctx *Ctx) {
	r := ctx.Rng
	sensor := newScriptSensor(0)
	if r.Intn(2) == 0 {
		mn := r.Intn(140) - 20
		mx := mn + 1 + r.Intn(100)
		if r.Intn(8) == 0 {
			mx = mn + 1
		}
		c := mkCurve(configuration.CurveConfig{ID: uniqueId("lin"), Linear: &configuration.LinearCurveConfig{Sensor: sensor.Id, Min: mn, Max: mx}})
		hit := map[string]bool{}
		for _, t := range tempsAround(r, []int{mn, mx, (mn + mx) / 2}) {
			sensor.Avg = t
			var v int
			var err error
			panicked, msg := Guard(func() { v, err = c.Evaluate() })
			ctx.Eval(1)
			desc := map[string]interface{}{"kind": "linear-minmax", "min": mn, "max": mx, "temp_mdeg": t}
			ctx.SampleKind("linear-minmax", desc)
			if panicked || err != nil {
				ctx.Violation("linear-minmax:panic-or-error", fmt.Sprintf("%v: %v %s", desc, err, msg), desc)
				return
			}
			var want float64
			region := "inside"
			switch {
			case t >= float64(mx)*1000:
				want, region = 255, "at-or-above-max"
			case t <= float64(mn)*1000:
				want, region = 0, "at-or-below-min"
			default:
				want = 255 * (t - float64(mn)*1000) / (float64(mx-mn) * 1000)
			}
			hit[region] = true
			if v < 0 || v > 255 {
				ctx.Violation("linear-minmax:outside-0..255:"+region, fmt.Sprintf("%v -> %d", desc, v), desc)
			} else if region != "inside" && float64(v) != want {
				ctx.Violation("linear-minmax:saturation-wrong:"+region, fmt.Sprintf("%v -> %d want %v", desc, v, want), desc)
			} else if math.Abs(float64(v)-want) >= 1+1e-9 {
				ctx.Violation("linear-minmax:not-interpolation", fmt.Sprintf("%v -> %d want %.4f", desc, v, want), desc)
			}
			if c.CurrentValue() != v {
				ctx.Violation("linear-minmax:current-value-differs", fmt.Sprintf("%v", desc), desc)
			}
		}
		if len(hit) == 3 {
			ctx.Nontrivial(fmt.Sprintf("minmax|%d|%d", mn, mx))
		}
		return
	}
	pts := genSteps(r, false)
	c := mkCurve(configuration.CurveConfig{ID: uniqueId("lin"), Linear: &configuration.LinearCurveConfig{Sensor: sensor.Id, Steps: stepsMap(pts)}})
	var bounds []int
	for _, p := range pts {
		bounds = append(bounds, p.T)
	}
	for _, t := range tempsAround(r, bounds) {
		sensor.Avg = t
		var v int
		var err error
		panicked, msg := Guard(func() { v, err = c.Evaluate() })
		ctx.Eval(1)
		desc := map[string]interface{}{"kind": "linear-steps", "steps": pts, "temp_mdeg": t}
		ctx.SampleKind("linear-steps", desc)
		if panicked || err != nil {
			ctx.Violation("linear-steps:panic-or-error", fmt.Sprintf("%v: %v %s", desc, err, msg), desc)
			return
		}
		want := refSteps(pts, t/1000)
		region := "inside"
		if t/1000 <= float64(pts[0].T) {
			region = "below-first-step"
		} else if t/1000 >= float64(pts[len(pts)-1].T) {
			region = "above-last-step"
		}
		if v < 0 || v > 255 {
			ctx.Violation("linear-steps:outside-0..255:"+region, fmt.Sprintf("%v -> %d", desc, v), desc)
		} else if math.Abs(float64(v)-want) >= 1+1e-3 {
			// (rounding mode is not part of the statement: nearest and truncation both pass)
			ctx.Violation("linear-steps:not-interpolation:"+region, fmt.Sprintf("%v -> %d want %.4f", desc, v, want), desc)
		}
	}
	if len(pts) >= 2 {
		ctx.Nontrivial("steps|" + hash64(fmt.Sprint(pts)))
	}
}

// ---------- function curves ----------

type fnNode struct {
	curve    curves.SpeedCurve
	typ      string
	children []*fnNode
	leaf     *ScriptCurve
}

func refAgg(typ string, vals []int) int {
	switch typ {
	case configuration.FunctionSum:
		s := 0
		for _, v := range vals {
			s += v
		}
		if s > 255 {
			s = 255
		}
		return s
	case configuration.FunctionDifference:
		d := vals[0]
		for _, v := range vals[1:] {
			d -= v
		}
		if d < 0 {
			d = 0
		}
		return d
	case configuration.FunctionDelta:
		mn, mx := vals[0], vals[0]
		for _, v := range vals {
			if v < mn {
				mn = v
			}
			if v > mx {
				mx = v
			}
		}
		return mx - mn
	case configuration.FunctionMinimum:
		mn := vals[0]
		for _, v := range vals {
			if v < mn {
				mn = v
			}
		}
		return mn
	case configuration.FunctionMaximum:
		mx := vals[0]
		for _, v := range vals {
			if v > mx {
				mx = v
			}
		}
		return mx
	case configuration.FunctionAverage:
		s := 0
		for _, v := range vals {
			s += v
		}
		// integer mean (floor for the non-negative member values)
		return s / len(vals)
	}
	panic("unknown function " + typ)
}

var fnTypes = []string{configuration.FunctionSum, configuration.FunctionDifference, configuration.FunctionDelta,
	configuration.FunctionMinimum, configuration.FunctionMaximum, configuration.FunctionAverage}

func genFnTree(r *rand.Rand, depth int, leaves *[]*ScriptCurve, types []string) *fnNode {
	if depth == 0 || r.Intn(3) == 0 && depth < 4 {
		l := newScriptCurve()
		*leaves = append(*leaves, l)
		return &fnNode{curve: l, leaf: l}
	}
	n := &fnNode{typ: pick(r, types...)}
	k := 1 + r.Intn(8)
	if depth < 3 {
		k = 1 + r.Intn(4)
	}
	var ids []string
	for i := 0; i < k; i++ {
		var ch *fnNode
		// share an existing stateless leaf now and then (DAG)
		if len(*leaves) > 0 && r.Intn(5) == 0 {
			l := (*leaves)[r.Intn(len(*leaves))]
			ch = &fnNode{curve: l, leaf: l}
		} else {
			ch = genFnTree(r, depth-1, leaves, types)
		}
		n.children = append(n.children, ch)
		ids = append(ids, ch.curve.GetId())
	}
	n.curve = mkCurve(configuration.CurveConfig{ID: uniqueId("fn"), Function: &configuration.FunctionCurveConfig{Type: n.typ, Curves: ids}})
	return n
}

func (n *fnNode) depth() int {
	d := 0
	for _, c := range n.children {
		if cd := c.depth() + 1; cd > d {
			d = cd
		}
	}
	return d
}

func (n *fnNode) describe() interface{} {
	if n.leaf != nil {
		return n.leaf.Val
	}
	var ch []interface{}
	for _, c := range n.children {
		ch = append(ch, c.describe())
	}
	return map[string]interface{}{n.typ: ch}
}

func (n *fnNode) check(ctx *Ctx, root *fnNode) bool {
	if n.leaf != nil {
		return true
	}
	var vals []int
	for _, c := range n.children {
		if !c.check(ctx, root) {
			return false
		}
		vals = append(vals, c.curve.CurrentValue())
	}
	want := refAgg(n.typ, vals)
	got := n.curve.CurrentValue()
	if got != want || got < 0 || got > 255 {
		ctx.Violation(fmt.Sprintf("function:%s:not-aggregate-of-members", n.typ), fmt.Sprintf("members %v -> %d, want %d; tree %s", vals, got, want, jsonStr(root.describe())), root.describe())
		return false
	}
	return true
}

func c06Function(ctx *Ctx) {
	r := ctx.Rng
	var leaves []*ScriptCurve
	root := genFnTree(r, 1+r.Intn(4), &leaves, fnTypes)
	if root.leaf != nil {
		return
	}
	for round := 0; round < 6; round++ {
		for _, l := range leaves {
			switch r.Intn(6) {
			case 0:
				l.Val = 0
			case 1:
				l.Val = 255
			default:
				l.Val = r.Intn(256)
			}
		}
		var v int
		var err error
		panicked, msg := Guard(func() { v, err = root.curve.Evaluate() })
		ctx.Eval(1)
		ctx.SampleKind("function", map[string]interface{}{"kind": "function-tree (leaf values shown)", "tree": root.describe()})
		if panicked || err != nil {
			ctx.Violation("function:"+root.typ+":panic-or-error", fmt.Sprintf("%s: %v %s", jsonStr(root.describe()), err, msg), root.describe())
			return
		}
		if v != root.curve.CurrentValue() {
			ctx.Violation("function:current-value-differs", jsonStr(root.describe()), root.describe())
		}
		if !root.check(ctx, root) {
			return
		}
	}
	ctx.Nontrivial(fmt.Sprintf("fn|%s|d%d|%s", root.typ, root.depth(), hash64(jsonStr(root.describe()))))
	ctx.AddSet("function_types_at_root_x_depth", fmt.Sprintf("%s/%d", root.typ, root.depth()))
}

// ---------- PID curve ----------

func c06Pid(ctx *Ctx) {
	r := ctx.Rng
	installClock()
	g := func() float64 {
		switch r.Intn(6) {
		case 0:
			return 0
		case 1:
			return -r.Float64() * pick(r, 0.01, 1.0)
		default:
			return r.Float64() * pick(r, 0.001, 0.05, 1.0, 10.0)
		}
	}
	p, i, d := g(), g(), g()
	if p == 0 && i == 0 && d == 0 {
		p = -0.05
	}
	setPoint := float64(20 + r.Intn(60))
	sensor := newScriptSensor(0)
	c := mkCurve(configuration.CurveConfig{ID: uniqueId("pid"), PID: &configuration.PidCurveConfig{Sensor: sensor.Id, SetPoint: setPoint, P: p, I: i, D: d}})
	// independent model of the documented loop
	var integral, prevErr float64
	first := true
	temp := float64(20000 + r.Intn(70000))
	sawInside := false
	for k := 0; k < 40; k++ {
		switch r.Intn(4) {
		case 0:
			temp = float64(r.Intn(120000))
		case 1:
			temp += float64(r.Intn(4001) - 2000)
		case 2:
			temp = pick(r, 0.0, -40000, 1e300, -1e300, 150000, setPoint*1000, setPoint*1000+1, setPoint*1000-1)
		}
		dtMs := pick(r, int64(1), 50, 200, 1000, 2000, 60000, 3600000)
		advance(time.Duration(dtMs) * time.Millisecond)
		sensor.Val = temp
		var v int
		var err error
		panicked, msg := Guard(func() { v, err = c.Evaluate() })
		ctx.Eval(1)
		desc := map[string]interface{}{"kind": "pid", "p": p, "i": i, "d": d, "setPoint": setPoint, "step": k, "temp_mdeg": temp, "dt_ms": dtMs}
		if k == 5 {
			ctx.SampleKind("pid", desc)
		}
		if panicked || err != nil {
			ctx.Violation("pid:panic-or-error", fmt.Sprintf("%v: %v %s", desc, err, msg), desc)
			return
		}
		e := setPoint - temp/1000.0
		out := 0.0
		if first {
			first = false
		} else {
			dt := float64(dtMs) / 1000
			integral = integral + e*dt
			deriv := (e - prevErr) / dt
			out = p*e + i*integral + d*deriv
		}
		prevErr = e
		if out > 1 {
			out = 1
		}
		if out < 0 {
			out = 0
		}
		scaled := out * 255
		if math.IsNaN(scaled) {
			ctx.Count("pid_nan_skipped", 1)
			return
		}
		if math.Abs(scaled-math.Round(scaled)) < 1e-9 && scaled != math.Round(scaled) {
			ctx.Count("pid_near_integer_skipped", 1)
			continue
		}
		want := int(scaled)
		if v < 0 || v > 255 {
			ctx.Violation("pid:outside-0..255", fmt.Sprintf("%v -> %d", desc, v), desc)
			return
		}
		if v != want {
			ctx.Violation("pid:not-clamped-pid-term", fmt.Sprintf("%v -> %d want %d (%.6f)", desc, v, want, scaled), desc)
			return
		}
		if want > 0 && want < 255 {
			sawInside = true
		}
	}
	if sawInside {
		ctx.Nontrivial(fmt.Sprintf("pid|%v|%v|%v|%v", p, i, d, setPoint))
	}
}

// c06Concurrent: several fans sharing one function curve evaluate it from their own goroutines. With constant
// sensor values every evaluation, by whichever goroutine, must yield the documented aggregate.
func c06Concurrent(ctx *Ctx) {
	r := ctx.Rng
	typ := pick(r, fnTypes...)
	k := 2 + r.Intn(5)
	var ids []string
	var vals []int
	for i := 0; i < k; i++ {
		s := newScriptSensor(float64(30000 + r.Intn(50000)))
		c := mkCurve(configuration.CurveConfig{ID: uniqueId("clin"), Linear: &configuration.LinearCurveConfig{Sensor: s.Id, Min: 30, Max: 80}})
		v, _ := c.Evaluate()
		ids = append(ids, c.GetId())
		vals = append(vals, v)
	}
	inner := mkCurve(configuration.CurveConfig{ID: uniqueId("cfn"), Function: &configuration.FunctionCurveConfig{Type: typ, Curves: ids}})
	top := mkCurve(configuration.CurveConfig{ID: uniqueId("cfn"), Function: &configuration.FunctionCurveConfig{Type: "maximum", Curves: []string{inner.GetId()}}})
	want := refAgg(typ, vals)
	var wg sync.WaitGroup
	var bad int64
	var firstBad int64 = -1
	for g := 0; g < 4; g++ {
		wg.Add(1)
		go func(g int) {
			defer wg.Done()
			defer func() {
				if p := recover(); p != nil {
					atomic.AddInt64(&bad, 1)
					atomic.CompareAndSwapInt64(&firstBad, -1, -999)
				}
			}()
			c := inner
			if g%2 == 1 {
				c = top
			}
			for i := 0; i < 1500; i++ {
				v, err := c.Evaluate()
				if err != nil || v != want {
					atomic.AddInt64(&bad, 1)
					atomic.CompareAndSwapInt64(&firstBad, -1, int64(v))
				}
			}
		}(g)
	}
	wg.Wait()
	ctx.Eval(6000)
	desc := map[string]interface{}{"kind": "concurrent", "type": typ, "member_values": vals, "goroutines": 4}
	ctx.SampleKind("concurrent", desc)
	if bad > 0 {
		ctx.Violation("function:"+typ+":wrong-aggregate-under-concurrent-evaluation", fmt.Sprintf("%v: %d of 6000 evaluations by 4 goroutines differed from %d (first: %d)", desc, bad, want, firstBad), desc)
		return
	}
	ctx.Nontrivial(fmt.Sprintf("concurrent|%s|%v", typ, vals))
}

func init() {
	register("C06", func(ctx *Ctx) {
		n := ctx.N(400000, 4000000)
		for k := 0; k < n; k++ {
			if k%400 == 399 {
				c06Concurrent(ctx)
				continue
			}
			if k%2000 == 1000 {
				c06ConfigPath(ctx, k)
				continue
			}
			switch k % 3 {
			case 0:
				c06Linear(ctx)
			case 1:
				c06Function(ctx)
			default:
				c06Pid(ctx)
			}
		}
	})
}
