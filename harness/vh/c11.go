package main

import (
	"fmt"
	"math/rand"
	"os"
	"path/filepath"
	"sort"
	"strconv"
	"strings"
	"sync"
	"time"

	"github.com/markusressel/fan2go/internal"
	"github.com/markusressel/fan2go/internal/configuration"
	"github.com/markusressel/fan2go/internal/controller"
	"github.com/markusressel/fan2go/internal/curves"
	"github.com/markusressel/fan2go/internal/fans"
	"github.com/markusressel/fan2go/internal/sensors"
	"github.com/prometheus/client_golang/prometheus"
	"github.com/spf13/viper"
)

// C11 — a configuration that validates can be run.
//
// Generated YAML text goes through the real path viper -> LoadConfig -> Validate.
// (i)  accepted  => unique ids, exactly one backend per entry, resolvable references, acyclic curve graph
//                   (reference check on the decoded structure) AND the daemon's own initialisation code can
//                   instantiate sensors, curves, fans and controllers, every curve can be evaluated under
//                   several sensor states and one control cycle per fan runs - without panic / fatal error.
// (ii) a configuration assembled only from documented forms (README, shipped fan2go.yaml) is accepted.

type c11Gen struct {
	r       *rand.Rand
	prefix  string
	dir     string
	hostile bool
	notes   []string // hostile features that were put in
}

func (g *c11Gen) note(s string) { g.notes = append(g.notes, s) }

type c11Curve struct {
	id      string
	kind    string // linear | steps | pid | function
	members []string
	sensor  string
	body    string
}

func (g *c11Gen) yaml() (text string, expectAccept bool) {
	r := g.r
	var sb strings.Builder
	sb.WriteString("dbPath: " + filepath.Join(g.dir, "fan2go.db") + "\n")
	sb.WriteString(pick(r, "", "runFanInitializationInParallel: false\n", "tempRollingWindowSize: 10\nrpmRollingWindowSize: 10\n", "controllerAdjustmentTickRate: 200ms\ntempSensorPollingRate: 200ms\nrpmPollingRate: 1s\n"))
	id := func(s string) string { return g.prefix + s }
	// ids only have to be unique within their kind: a third of the configurations use the same names for sensors,
	// curves and fans (the README itself has a sensor and a fan called cmd_fan)
	shareIds := r.Intn(3) == 0
	kindId := func(kind string, i int) string {
		if shareIds {
			return id(fmt.Sprintf("n%d", i))
		}
		return id(fmt.Sprintf("%s%d", kind, i))
	}
	// ---- sensors
	nS := 1 + r.Intn(3)
	var sensorIds []string
	sb.WriteString("sensors:\n")
	for i := 0; i < nS; i++ {
		sid := kindId("s", i)
		sensorIds = append(sensorIds, sid)
		kind := pick(r, "file", "file", "cmd", "hwmon")
		entry := "  - id: " + sid + "\n"
		if g.hostile && r.Intn(25) == 0 {
			entry = "  - id: " + sensorIds[0] + "\n"
			if i > 0 {
				g.note("duplicate-sensor-id")
			}
		}
		backend := func(kind string) string {
			switch kind {
			case "file":
				p := filepath.Join(g.dir, "sensor-"+sid)
				_ = os.WriteFile(p, []byte("45000\n"), 0644)
				return "    file:\n      path: " + p + "\n"
			case "cmd":
				p := filepath.Join(g.dir, "sensor.sh")
				cmdScript(p, "echo 47000")
				return "    cmd:\n      exec: " + p + "\n" + pick(r, "", "      args: [ 'x' ]\n", "      args: []\n")
			default:
				idx := 1 + r.Intn(3)
				if g.hostile && r.Intn(6) == 0 {
					idx = pick(r, 0, -1)
					g.note("hwmon-sensor-index<=0")
				}
				return fmt.Sprintf("    hwmon:\n      platform: verifchip\n      index: %d\n", idx)
			}
		}
		switch {
		case g.hostile && r.Intn(20) == 0:
			g.note("sensor-without-backend")
		case g.hostile && r.Intn(20) == 0:
			entry += backend("file") + backend("cmd")
			g.note("sensor-with-two-backends")
		default:
			entry += backend(kind)
		}
		sb.WriteString(entry)
	}
	// ---- curves
	nC := 1 + r.Intn(8)
	var cs []*c11Curve
	for i := 0; i < nC; i++ {
		cs = append(cs, &c11Curve{id: kindId("c", i)})
	}
	// a random topological order: curve order[k] may only use members that come earlier in `order`;
	// the listing order in the file is independent of it (shuffled below)
	order := r.Perm(nC)
	for k, ci := range order {
		c := cs[ci]
		kinds := []string{"linear", "steps", "pid", "function", "function"}
		if k == 0 {
			kinds = []string{"linear", "steps", "pid"}
		}
		c.kind = pick(r, kinds...)
		c.sensor = sensorIds[r.Intn(len(sensorIds))]
		if g.hostile && r.Intn(20) == 0 && c.kind != "function" {
			c.sensor = pick(r, id("nosuchsensor"), "", c11CaseVariant(sensorIds[r.Intn(len(sensorIds))]))
			g.note("dangling-or-empty-sensor-ref")
		}
		if c.kind == "function" {
			n := 1 + r.Intn(min(k, 4))
			for _, j := range r.Perm(k)[:n] {
				c.members = append(c.members, cs[order[j]].id)
			}
		}
	}
	if g.hostile {
		switch r.Intn(6) {
		case 0: // a cycle of length L among function curves; the cycle members may have further members and referrers
			L := 1 + r.Intn(min(nC, 8))
			cyc := r.Perm(nC)[:L]
			for k := 0; k < L; k++ {
				c := cs[cyc[k]]
				if c.kind != "function" || r.Intn(2) == 0 {
					c.members = nil
				}
				c.kind = "function"
				c.members = append(c.members, cs[cyc[(k+1)%L]].id)
				r.Shuffle(len(c.members), func(a, b int) { c.members[a], c.members[b] = c.members[b], c.members[a] })
			}
			// another curve aggregating several cycle members (in-degree >= 2 inside the cycle)
			if L >= 2 && nC > L && r.Intn(2) == 0 {
				for _, ci := range r.Perm(nC) {
					inCycle := false
					for _, x := range cyc {
						if x == ci {
							inCycle = true
						}
					}
					if !inCycle {
						cs[ci].kind = "function"
						cs[ci].members = []string{cs[cyc[0]].id, cs[cyc[1%L]].id}
						break
					}
				}
			}
			if L == 1 {
				g.note("self-reference")
			} else {
				g.note(fmt.Sprintf("cycle-of-length-%d", L))
			}
		case 1:
			c := cs[r.Intn(nC)]
			c.kind = "function"
			c.members = []string{pick(r, id("nosuchcurve"), c11CaseVariant(cs[r.Intn(nC)].id))}
			g.note("dangling-curve-ref")
		case 2:
			c := cs[r.Intn(nC)]
			c.kind = "function"
			c.members = nil
			g.note("function-without-members")
		}
	}
	// listing order in the file
	r.Shuffle(len(cs), func(a, b int) { cs[a], cs[b] = cs[b], cs[a] })
	sb.WriteString("curves:\n")
	for i, c := range cs {
		entry := "  - id: " + c.id + "\n"
		if g.hostile && i > 0 && r.Intn(30) == 0 {
			entry = "  - id: " + cs[0].id + "\n"
			g.note("duplicate-curve-id")
		}
		switch c.kind {
		case "linear":
			mn := r.Intn(60)
			entry += fmt.Sprintf("    linear:\n      sensor: %s\n      min: %d\n      max: %d\n", c.sensor, mn, mn+1+r.Intn(60))
		case "steps":
			entry += fmt.Sprintf("    linear:\n      sensor: %s\n", c.sensor)
			form := "list"
			if g.hostile {
				form = pick(r, "list", "map", "empty-list", "empty-map", "null", "singleton", "empty-list-with-range", "empty-map-with-range", "steps-and-range")
			}
			switch form {
			case "list":
				entry += "      steps:\n        - 40: 0\n        - 50: 50\n        - 80: 255\n"
			case "map":
				entry += "      steps:\n        40: 0\n        50: 50\n        80: 255\n"
			case "empty-list":
				entry += "      steps: []\n"
				g.note("empty-steps")
			case "empty-map":
				entry += "      steps: {}\n"
				g.note("empty-steps")
			case "null":
				entry += "      steps:\n      min: 40\n      max: 80\n"
			case "singleton":
				entry += "      steps:\n        - 55: 128\n"
			case "empty-list-with-range":
				// both forms of a linear curve in one entry: whatever fan2go makes of it, if it validates it must run
				entry += "      steps: []\n      min: 40\n      max: 80\n"
				g.note("empty-steps-with-range")
			case "empty-map-with-range":
				entry += "      min: 40\n      max: 80\n      steps: {}\n"
				g.note("empty-steps-with-range")
			case "steps-and-range":
				entry += "      min: 40\n      max: 80\n      steps:\n        - 45: 10\n        - 70: 200\n"
				g.note("steps-and-range")
			}
		case "pid":
			p, ii, d := -0.05, -0.005, -0.005
			if g.hostile && r.Intn(5) == 0 {
				p, ii, d = 0, 0, 0
				g.note("pid-curve-all-zero")
			}
			entry += fmt.Sprintf("    pid:\n      sensor: %s\n      setPoint: 60\n      p: %v\n      i: %v\n      d: %v\n", c.sensor, p, ii, d)
		case "function":
			typ := pick(r, "minimum", "maximum", "average", "delta", "sum", "difference")
			if g.hostile && r.Intn(15) == 0 {
				typ = "median"
				g.note("unknown-function-type")
			}
			entry += "    function:\n      type: " + typ + "\n"
			if len(c.members) == 0 {
				entry += "      curves: []\n"
			} else {
				entry += "      curves:\n"
				for _, m := range c.members {
					entry += "        - " + m + "\n"
				}
			}
		}
		if g.hostile && r.Intn(30) == 0 {
			entry += "    pid:\n      sensor: " + sensorIds[0] + "\n      setPoint: 50\n      p: 1\n      i: 0\n      d: 0\n"
			if c.kind != "pid" {
				g.note("curve-with-two-kinds")
			}
		}
		sb.WriteString(entry)
	}
	// ---- fans
	nF := 1 + r.Intn(3)
	sb.WriteString("fans:\n")
	for i := 0; i < nF; i++ {
		fid := kindId("f", i)
		entry := "  - id: " + fid + "\n"
		kind := pick(r, "file", "file", "cmd", "hwmon", "hwmon")
		backend := func(kind string) string {
			switch kind {
			case "file":
				p := filepath.Join(g.dir, "fan-"+fid)
				_ = os.WriteFile(p, []byte("100\n"), 0644)
				s := "    file:\n      path: " + p + "\n"
				if r.Intn(2) == 0 {
					rp := p + "-rpm"
					_ = os.WriteFile(rp, []byte("1200\n"), 0644)
					s += "      rpmPath: " + rp + "\n"
				}
				return s
			case "cmd":
				st := filepath.Join(g.dir, "cmdfan-"+fid)
				_ = os.WriteFile(st, []byte("90\n"), 0644)
				set, get, rpm := st+"-set.sh", st+"-get.sh", st+"-rpm.sh"
				cmdScript(set, "echo \"$2\" > "+st)
				cmdScript(get, "cat "+st)
				cmdScript(rpm, "echo 1500")
				s := "    cmd:\n      setPwm:\n        exec: " + set + "\n        args: [ \"--set\", \"%pwm%\" ]\n      getPwm:\n        exec: " + get + "\n"
				if r.Intn(2) == 0 {
					s += "      getRpm:\n        exec: " + rpm + "\n        args: [ \"-a\", \"b\" ]\n"
				}
				return s
			default:
				ch := 1 + r.Intn(3)
				s := "    hwmon:\n      platform: verifchip\n"
				sel := pick(r, "rpmChannel", "rpmChannel", "index")
				if g.hostile {
					switch r.Intn(8) {
					case 0:
						s += fmt.Sprintf("      index: %d\n      rpmChannel: %d\n", ch, ch)
						g.note("hwmon-fan-index-and-channel")
						return s
					case 1:
						g.note("hwmon-fan-neither-index-nor-channel")
						return s
					case 2:
						s += "      rpmChannel: -2\n"
						g.note("hwmon-fan-negative-channel")
						return s
					}
				}
				s += fmt.Sprintf("      %s: %d\n", sel, ch)
				if r.Intn(2) == 0 {
					s += fmt.Sprintf("      pwmChannel: %d\n", 1+r.Intn(3))
				}
				return s
			}
		}
		switch {
		case g.hostile && r.Intn(20) == 0:
			g.note("fan-without-backend")
		case g.hostile && r.Intn(20) == 0:
			entry += backend("file") + backend("cmd")
			g.note("fan-with-two-backends")
		default:
			entry += backend(kind)
		}
		entry += pick(r, "", "    neverStop: true\n", "    neverStop: false\n")
		cref := cs[r.Intn(nC)].id
		if g.hostile && r.Intn(15) == 0 {
			cref = pick(r, id("nosuchcurve"), "", c11CaseVariant(cs[r.Intn(nC)].id))
			g.note("dangling-or-empty-fan-curve-ref")
		}
		if cref != "" || r.Intn(2) == 0 {
			entry += "    curve: " + cref + "\n"
		}
		algos := []string{"", "    controlAlgorithm: direct\n", "    controlAlgorithm: pid\n",
			"    controlAlgorithm:\n      direct:\n        maxPwmChangePerCycle: 10\n",
			"    controlAlgorithm:\n      pid:\n        p: 0.3\n        i: 0.02\n        d: 0.005\n"}
		algo := pick(r, algos...)
		if g.hostile {
			switch r.Intn(10) {
			case 0:
				algo = "    controlAlgorithm: {}\n"
				g.note("empty-controlAlgorithm")
			case 1:
				algo = fmt.Sprintf("    controlAlgorithm:\n      direct:\n        maxPwmChangePerCycle: %d\n", pick(r, 0, -3))
				g.note("maxPwmChangePerCycle<=0")
			case 2:
				algo = "    controlAlgorithm:\n      pid:\n        p: 0\n        i: 0\n        d: 0\n"
				g.note("pid-algorithm-all-zero")
			case 3:
				algo = "    controlAlgorithm:\n      direct: {}\n"
			case 4:
				algo = "    controlLoop:\n      p: 0.03\n      i: 0.002\n      d: 0.0005\n"
			case 5:
				algo = "    controlAlgorithm:\n      direct:\n" // direct: null
				g.note("empty-controlAlgorithm")
			}
		}
		entry += algo
		if r.Intn(3) == 0 {
			entry += "    minPwm: 30\n    startPwm: 30\n    maxPwm: 255\n"
		}
		if r.Intn(4) == 0 {
			entry += "    pwmMap:\n      0: 0\n      64: 128\n      192: 255\n"
		}
		if g.hostile && i > 0 && r.Intn(25) == 0 {
			entry = strings.Replace(entry, fid, id("f0"), 1)
			g.note("duplicate-fan-id")
		}
		sb.WriteString(entry)
	}
	sb.WriteString(pick(r, "", "statistics:\n  enabled: false\n  port: 9000\napi:\n  enabled: false\n  host: localhost\n  port: 9001\n"))
	return sb.String(), !g.hostile
}

func min(a, b int) int {
	if a < b {
		return a
	}
	return b
}

// reference check of the decoded configuration
func c11RefCheck(cfg *configuration.Configuration) string {
	seen := map[string]bool{}
	for _, s := range cfg.Sensors {
		if seen["s/"+s.ID] {
			return "duplicate-sensor-id"
		}
		seen["s/"+s.ID] = true
		n := 0
		for _, b := range []bool{s.HwMon != nil, s.File != nil, s.Cmd != nil} {
			if b {
				n++
			}
		}
		if n != 1 {
			return fmt.Sprintf("sensor-with-%d-backends", n)
		}
	}
	graph := map[string][]string{}
	for _, c := range cfg.Curves {
		if seen["c/"+c.ID] {
			return "duplicate-curve-id"
		}
		seen["c/"+c.ID] = true
		n := 0
		for _, b := range []bool{c.Linear != nil, c.PID != nil, c.Function != nil} {
			if b {
				n++
			}
		}
		if n != 1 {
			return fmt.Sprintf("curve-with-%d-kinds", n)
		}
	}
	for _, c := range cfg.Curves {
		if c.Linear != nil && !seen["s/"+c.Linear.Sensor] {
			return "unresolvable-sensor-ref"
		}
		if c.PID != nil && !seen["s/"+c.PID.Sensor] {
			return "unresolvable-sensor-ref"
		}
		if c.Function != nil {
			for _, m := range c.Function.Curves {
				if !seen["c/"+m] {
					return "unresolvable-curve-ref"
				}
				graph[c.ID] = append(graph[c.ID], m)
			}
		}
	}
	// cycle detection (DFS, iterative colouring)
	colour := map[string]int{}
	var visit func(n string) bool
	visit = func(n string) bool {
		colour[n] = 1
		for _, m := range graph[n] {
			if colour[m] == 1 {
				return true
			}
			if colour[m] == 0 && visit(m) {
				return true
			}
		}
		colour[n] = 2
		return false
	}
	var ids []string
	for n := range graph {
		ids = append(ids, n)
	}
	sort.Strings(ids)
	for _, n := range ids {
		if colour[n] == 0 && visit(n) {
			return "curve-graph-cyclic"
		}
	}
	for _, f := range cfg.Fans {
		if seen["f/"+f.ID] {
			return "duplicate-fan-id"
		}
		seen["f/"+f.ID] = true
		n := 0
		for _, b := range []bool{f.HwMon != nil, f.File != nil, f.Cmd != nil} {
			if b {
				n++
			}
		}
		if n != 1 {
			return fmt.Sprintf("fan-with-%d-backends", n)
		}
		if !seen["c/"+f.Curve] {
			return "unresolvable-fan-curve-ref"
		}
	}
	return ""
}

func c11FakeTree(dir string) string {
	root := filepath.Join(dir, "hwmonroot")
	chip := filepath.Join(root, "hwmon0")
	_ = os.MkdirAll(chip, 0755)
	_ = os.WriteFile(filepath.Join(chip, "name"), []byte("verifchip\n"), 0644)
	for i := 1; i <= 3; i++ {
		_ = os.WriteFile(filepath.Join(chip, fmt.Sprintf("fan%d_input", i)), []byte("1100\n"), 0644)
		_ = os.WriteFile(filepath.Join(chip, fmt.Sprintf("pwm%d", i)), []byte("120\n"), 0644)
		_ = os.WriteFile(filepath.Join(chip, fmt.Sprintf("pwm%d_enable", i)), []byte("2\n"), 0644)
		_ = os.WriteFile(filepath.Join(chip, fmt.Sprintf("temp%d_input", i)), []byte("41000\n"), 0644)
	}
	return root
}

type c11Outcome struct {
	accepted  bool
	rejectErr string
}

// c11DuplicateIds: a repeated sensor, curve or fan id, after ids in every kind of order (ascending, descending, mixed,
// the repeat first / last / in the middle). A configuration with a repeated id must not validate: which of the two
// entries a reference means is undefined, and the registries keep one of them only.
func c11DuplicateIds(ctx *Ctx) {
	dir := ctx.Path("c11dup")
	_ = os.MkdirAll(dir, 0755)
	defer os.RemoveAll(dir)
	sf := filepath.Join(dir, "sensor")
	_ = os.WriteFile(sf, []byte("40000\n"), 0644)
	seqs := [][]string{{"a", "a"}, {"a", "b", "a"}, {"b", "a", "b"}, {"rear", "front", "bottom", "rear"}, {"c", "a", "b", "a"}, {"z", "y", "x", "z"},
		{"a", "b", "c", "d", "b"}, {"d", "c", "b", "a", "c"}, {"m", "a", "z", "m", "b"}, {"b", "b", "a"}, {"x1", "x10", "x2", "x10"}, {"B", "a", "C", "a"}}
	for _, kind := range []string{"sensor", "curve", "fan"} {
		for _, seq := range seqs {
			var sb strings.Builder
			fmt.Fprintf(&sb, "dbPath: %s/fan2go.db\nsensors:\n", dir)
			sids, cids, fids := []string{"s0"}, []string{"c0"}, []string{"f0"}
			switch kind {
			case "sensor":
				sids = seq
			case "curve":
				cids = seq
			default:
				fids = seq
			}
			for _, id := range sids {
				fmt.Fprintf(&sb, "  - id: %s\n    file:\n      path: %s\n", id, sf)
			}
			sb.WriteString("curves:\n")
			for i, id := range cids {
				fmt.Fprintf(&sb, "  - id: %s\n    linear:\n      sensor: %s\n      min: 40\n      max: 80\n", id, sids[i%len(sids)])
			}
			sb.WriteString("fans:\n")
			for i, id := range fids {
				fmt.Fprintf(&sb, "  - id: %s\n    curve: %s\n    file:\n      path: %s/fan%d\n", id, cids[i%len(cids)], dir, i)
			}
			text := sb.String()
			cfgPath := filepath.Join(dir, "fan2go.yaml")
			_ = os.WriteFile(cfgPath, []byte(text), 0644)
			viper.Reset()
			accepted := false
			_, _ = Guard(func() {
				configuration.InitConfig(cfgPath)
				if err := viper.ReadInConfig(); err != nil {
					return
				}
				configuration.LoadConfig()
				accepted = configuration.Validate(cfgPath) == nil
			})
			ctx.Eval(1)
			if accepted {
				ctx.Violation("accepted-but-duplicate-"+kind+"-id:listed", fmt.Sprintf("%s ids in this order: %v\n%s", kind, seq, text), map[string]interface{}{"yaml": text})
				return
			}
			ctx.Nontrivial("duplicate-ids|" + kind + "|" + strings.Join(seq, ","))
		}
	}
}

func c11RunCase(ctx *Ctx, idx int, hostile bool) {
	r := ctx.Rng
	dir := ctx.Path(fmt.Sprintf("c11-%d", idx))
	_ = os.MkdirAll(dir, 0755)
	defer os.RemoveAll(dir)
	g := &c11Gen{r: r, prefix: fmt.Sprintf("b%dn%d-", ctx.Batch, idx), dir: dir, hostile: hostile}
	text, expectAccept := g.yaml()
	sort.Strings(g.notes)
	cfgPath := filepath.Join(dir, "fan2go.yaml")
	_ = os.WriteFile(cfgPath, []byte(text), 0644)
	class := strings.Join(g.notes, "+")
	if class == "" {
		class = "clean"
	}
	ctx.LogCase(map[string]interface{}{"class": "accepted-config-kills-process:" + class, "index": idx, "yaml": text})
	ctx.Eval(1)
	replay := map[string]interface{}{"yaml": text, "features": g.notes}
	if hostile {
		ctx.SampleKind("hostile", map[string]interface{}{"kind": "hostile", "features": g.notes, "yaml": text})
	} else {
		ctx.SampleKind("documented", map[string]interface{}{"kind": "documented", "yaml": text})
	}

	// --- the real loading path
	viper.Reset()
	var verr error
	accepted := false
	loadPanic, lmsg := Guard(func() {
		configuration.InitConfig(cfgPath)
		if err := viper.ReadInConfig(); err != nil {
			verr = fmt.Errorf("read: %v", err)
			return
		}
		configuration.LoadConfig()
		verr = configuration.Validate(cfgPath)
		accepted = verr == nil
	})
	if loadPanic {
		// LoadConfig escalates decode errors with ui.Fatal: the configuration is not accepted
		verr = fmt.Errorf("load panicked: %s", firstLine(lmsg))
		accepted = false
		ctx.Count("rejected_by_decode_panic", 1)
	}
	if !accepted {
		ctx.Count("rejected", 1)
		if expectAccept {
			ctx.Violation("documented-config-rejected", fmt.Sprintf("%v\n%s", verr, text), replay)
		} else if len(g.notes) > 0 {
			ctx.Nontrivial("rejected|" + class)
		}
		return
	}
	ctx.Count("accepted", 1)
	cfg := &configuration.CurrentConfig
	if why := c11RefCheck(cfg); why != "" {
		ctx.Violation("accepted-but-"+why, fmt.Sprintf("features %v\n%s", g.notes, text), replay)
		return
	}
	// --- instantiate through the daemon's own initialisation code
	_ = os.Setenv("FAN2GO_VERIF_HWMON_ROOT", c11FakeTree(dir))
	reg := prometheus.NewRegistry()
	prometheus.DefaultRegisterer = reg
	prometheus.DefaultGatherer = reg
	installClock()
	clockAutoTick = 100 * time.Nanosecond
	envErr := ""
	panicked, msg, stuck := GuardStuck(func() {
		fanMap, err := internal.InitializeObjects()
		if err != nil {
			envErr = err.Error()
			return
		}
		pers := newMemPersistence()
		ctrls, err := internal.VerifInitializeFanControllers(pers, fanMap)
		if err != nil {
			envErr = err.Error()
			return
		}
		// evaluate every curve under several sensor states
		for round, temp := range []string{"-50000", "0", "45000", "<unreadable>", "61000", "200000", "55000", "-50000", "40000", "80000"} {
			for _, sc := range cfg.Sensors {
				if sc.File != nil {
					if temp == "<unreadable>" {
						// a sensor that cannot be read at the moment: evaluation may report errors, it must not crash
						_ = os.Remove(sc.File.Path)
					} else {
						_ = os.WriteFile(sc.File.Path, []byte(temp+"\n"), 0644)
					}
				}
				if s, ok := sensors.GetSensor(sc.ID); ok {
					_ = internal.VerifUpdateSensor(s)
					if n, perr := strconv.Atoi(temp); perr == nil && round%2 == 1 {
						// ... and the smoothed value has arrived there (the monitor gets it there in the long run)
						s.SetMovingAvg(float64(n))
					}
				}
			}
			advance(200 * time.Millisecond)
			for _, cc := range cfg.Curves {
				c, ok := curves.GetSpeedCurve(cc.ID)
				if !ok {
					panic("curve not registered: " + cc.ID)
				}
				v, err := c.Evaluate()
				if err == nil && (v < 0 || v > 255) {
					panic(fmt.Sprintf("curve %s evaluated to %d in round %d", cc.ID, v, round))
				}
			}
		}
		// the daemon evaluates the curves from one goroutine per fan: every curve, from three goroutines at once
		if idx%4 == 1 && len(cfg.Curves) > 0 {
			var wg sync.WaitGroup
			// (function curves evaluate shared members: more goroutines and rounds there - an unsynchronised access shows as
			// a runtime abort only when two of them really overlap)
			ng, nk := 3, 40
			for _, cc := range cfg.Curves {
				if cc.Function != nil {
					ng, nk = 4, 120
				}
			}
			msgs := make([]string, ng)
			for g := 0; g < ng; g++ {
				wg.Add(1)
				go func(g int) {
					defer wg.Done()
					_, msgs[g] = Guard(func() {
						for k := 0; k < nk; k++ {
							for _, cc := range cfg.Curves {
								if c, ok := curves.GetSpeedCurve(cc.ID); ok {
									_, _ = c.Evaluate()
								}
							}
						}
					})
				}(g)
			}
			wg.Wait()
			for _, m := range msgs {
				if m != "" {
					panic("during concurrent evaluation: " + m)
				}
			}
		}
		// one control cycle per fan
		var fl []fans.Fan
		for f := range ctrls {
			fl = append(fl, f)
		}
		sort.Slice(fl, func(i, j int) bool { return fl[i].GetId() < fl[j].GetId() })
		for _, f := range fl {
			c := ctrls[f].(*controller.DefaultFanController)
			m := identityMap()
			c.VerifSetPwmMap(m)
			_ = c.UpdateFanSpeed()
			_ = c.UpdateFanSpeed()
		}
	})
	if stuck != "" {
		// instantiating and running the accepted configuration never comes back: a lock inside fan2go is waited for for minutes
		ctx.Violation("accepted-but-deadlocks:"+class, fmt.Sprintf("a fan2go goroutine has been waiting for a lock for minutes:\n%s\n--- features %v\n%s", stuck, g.notes, text), replay)
		ctx.Abort = true
		panic(abortBatch{})
	}
	if panicked {
		ctx.Violation("accepted-but-crashes:"+class, fmt.Sprintf("%s\n--- features %v\n%s", firstLines(msg, 12), g.notes, text), replay)
		return
	}
	if envErr != "" {
		ctx.Count("accepted_but_not_instantiable_in_this_environment", 1)
		ctx.AddSet("environment_errors", trunc(envErr))
	}
	ctx.Nontrivial("accepted|" + hash64(text))
	ctx.AddSet("accepted_feature_classes", class)
}

func firstLines(s string, n int) string {
	l := strings.Split(s, "\n")
	if len(l) > n {
		l = l[:n]
	}
	return strings.Join(l, "\n")
}

func init() {
	register("C11", func(ctx *Ctx) {
		if ctx.Batch == 0 {
			c11DuplicateIds(ctx)
		}
		n := ctx.N(12000, 200000)
		for i := 0; i < n; i++ {
			c11RunCase(ctx, i, i%3 != 0)
		}
	})
}

// c11CaseVariant: an id that differs from a declared one only in letter case - still a reference to nothing
func c11CaseVariant(id string) string {
	up := strings.ToUpper(id)
	if up != id {
		return up
	}
	return strings.ToLower(id)
}
