package main

import (
	"fmt"
	"math/rand"
	"os"
	"path/filepath"
	"strconv"
	"strings"
	"time"

	"github.com/markusressel/fan2go/internal/configuration"
	"github.com/markusressel/fan2go/internal/controller"
	"github.com/markusressel/fan2go/internal/fans"
	"github.com/markusressel/fan2go/internal/util"
)

// ---------- scenario description (JSON = replay format) ----------

type FanSpec struct {
	Kind      string          `json:"kind"` // hwmon | file | cmd | sim
	NeverStop bool            `json:"neverStop"`
	CfgMin    *int            `json:"cfgMin,omitempty"`
	CfgStart  *int            `json:"cfgStart,omitempty"`
	CfgMax    *int            `json:"cfgMax,omitempty"`
	Measured  map[int]float64 `json:"measured,omitempty"` // RPM curve attached to a hwmon fan (measured limits)
	HasRpm    bool            `json:"hasRpm"`
	HasEnable bool            `json:"hasEnable"`
	HasPwm    bool            `json:"hasPwm"` // sim only: PWM read-back
	SimMin    int             `json:"simMin,omitempty"`
	SimMax    int             `json:"simMax,omitempty"`
	// ExpMin / ExpMax: the limits the user's configuration and the attached measurement define (configured values
	// win over measured ones), where the property text settles them; nil = not asserted
	// HomePath (file fans): the paths are given in the documented "~/..." form
	HomePath bool `json:"homePath,omitempty"`
	// ViaLoader: the fan entry goes through a configuration file and fan2go's loader instead of a struct literal
	ViaLoader bool `json:"viaLoader,omitempty"`
	// CmdPadded (cmd fans): the read-back tool prints zero-padded decimals
	CmdPadded bool `json:"cmdPadded,omitempty"`
	// CmdChatty (cmd fans): the read-back tool writes a diagnostic to stderr, while it answers normally (exit status 0),
	// whenever the device does not hold what was last written through the set tool (somebody else has taken it over);
	// the tachometer tool always does
	CmdChatty bool `json:"cmdChatty,omitempty"`
	// CmdOneTool (cmd fans): setPwm, getPwm and getRpm are one executable called with different arguments (the README's
	// nvidia-settings example, ipmitool, liquidctl ...)
	CmdOneTool bool `json:"cmdOneTool,omitempty"`
	// CmdTwice (cmd fans): the setPwm command carries the %pwm% placeholder twice inside one argument
	CmdTwice bool `json:"cmdTwice,omitempty"`
	ExpMin   *int `json:"expMin,omitempty"`
	ExpMax *int `json:"expMax,omitempty"`
}

type PlantSpec struct {
	Kind   string `json:"kind"`
	Theta  int    `json:"theta"`
	MaxRpm int    `json:"maxRpm"`
	MaxEff int    `json:"maxEff,omitempty"`
	Const  int    `json:"const,omitempty"`
}

type MapSpec struct {
	Kind   string      `json:"kind"` // identity | readme | hundred | sparse | quant | none
	Levels int         `json:"levels,omitempty"`
	Map    map[int]int `json:"map,omitempty"`
}

type Intrusion struct {
	Mode *int `json:"mode,omitempty"`
	Pwm  *int `json:"pwm,omitempty"`
	// Unreadable (cmd fans): during the cycle that follows the tool answers "device busy" to the PWM query
	Unreadable bool `json:"unreadable,omitempty"`
}

type MidIntrusion struct {
	AtOp int  `json:"atOp"` // applied when the n-th file operation of the cycle is issued
	Mode *int `json:"mode,omitempty"`
	Pwm  *int `json:"pwm,omitempty"`
}

type FaultSpec struct {
	Target string `json:"target"` // pwm | enable | rpm
	Op     string `json:"op"`     // r | w
	Action string `json:"action"` // fail | ignore | content
	Errno  string `json:"errno,omitempty"`
	Raw    string `json:"raw,omitempty"`
}

type CycleStep struct {
	Curve   int        `json:"c"`
	DtMs    int64      `json:"dt"`
	Polls   int        `json:"polls,omitempty"`
	Theta   *int       `json:"theta,omitempty"`   // plant threshold from this cycle on
	PlantK  string     `json:"plantKind,omitempty"`
	Intrude *Intrusion `json:"intrude,omitempty"` // applied after the polls, before the cycle
	Fault   *FaultSpec `json:"fault,omitempty"`   // active during this cycle only
	PollFault *FaultSpec `json:"pollFault,omitempty"` // active during the RPM polls before this cycle only
	Mid     *MidIntrusion `json:"mid,omitempty"`  // interference in the middle of this cycle
	// CmdFail (cmd fans): during this cycle every call of the tool fails (exit status 1, "device busy")
	CmdFail bool `json:"cmdFail,omitempty"`
}

type Scenario struct {
	Fan      FanSpec     `json:"fan"`
	Plant    PlantSpec   `json:"plant"`
	Map      MapSpec     `json:"map"`
	Loop     LoopSpec    `json:"loop"`
	Window   int         `json:"window"`
	InitPwm  int         `json:"initPwm"`
	InitMode int         `json:"initMode"`
	PriorRpm float64     `json:"priorRpm"`
	Steps    []CycleStep `json:"steps"`
}

// Label: the fan kind as it appears in classes and signatures
func (f FanSpec) Label() string {
	if f.HomePath {
		return f.Kind + "-home"
	}
	return f.Kind
}

func (m MapSpec) build() map[int]int {
	switch m.Kind {
	case "identity":
		return identityMap()
	case "readme":
		return map[int]int{0: 0, 64: 128, 192: 255}
	case "hundred":
		mm := map[int]int{}
		for i := 0; i <= 100; i++ {
			mm[i*255/100] = i
		}
		return mm
	case "quant":
		return quantMap(quantLevels(m.Levels))
	case "sparse":
		c := map[int]int{}
		for k, v := range m.Map {
			c[k] = v
		}
		return c
	}
	return nil
}

// ---------- execution ----------

type CycleRecord struct {
	Idx          int
	Step         *CycleStep
	Err          error
	Panic        string
	MinBefore    int
	MaxBefore    int
	MinAfter     int
	MaxAfter     int
	HadPrev      bool
	PrevRequest  int
	HasRequest   bool
	Request      int
	PwmWrites    []int
	PwmWriteErrs int
	ModeWrites   []int
	DevPwmBefore int // device PWM after polls/intrusion, before the cycle
	DevPwmAfter  int
	DevModeAfter int
	StatsBefore  controller.FanControllerStatistics
	StatsAfter   controller.FanControllerStatistics
	RpmAvgBefore float64
	RpmSeenZero  bool // one of the polls before this cycle read 0 RPM
	LastRpm      int
	MidApplied   bool
	OpsInCycle   int
}

type World struct {
	Sc     *Scenario
	Fan    fans.Fan
	VFan   *VFan
	Sim    *SimFan
	Curve  *ScriptCurve
	Ctrl   *controller.DefaultFanController
	PwmMap map[int]int
	Supp   []int
	Quant  func(int) int
	cmdDir string
}

type Observer func(w *World, rec *CycleRecord) (stop bool)

func cmdScript(path, body string) {
	_ = os.WriteFile(path, []byte("#!/bin/sh\n"+body+"\n"), 0755)
}

func buildWorld(ctx *Ctx, sc *Scenario) *World {
	installClock()
	resetDriver()
	configuration.CurrentConfig.RpmRollingWindowSize = sc.Window
	configuration.CurrentConfig.RunFanInitializationInParallel = true
	w := &World{Sc: sc}
	w.Curve = newScriptCurve()
	w.PwmMap = sc.Map.build()
	var ctrlMap map[int]int // the map fan2go works with, when it is not simply w.PwmMap
	if w.PwmMap != nil {
		w.Supp = refSupported(w.PwmMap)
	}
	id := uniqueId("vfan")
	switch sc.Fan.Kind {
	case "hwmon", "file":
		v := newVFan(ctx, sc.Fan.HasEnable && sc.Fan.Kind == "hwmon", sc.Fan.HasRpm)
		w.VFan = v
		if sc.Map.Kind == "quant" {
			levels := quantLevels(sc.Map.Levels)
			w.Quant = func(x int) int { return nearestLevel(levels, x) }
		}
		v.SetPwmRaw(sc.InitPwm)
		if sc.Fan.HasEnable {
			v.SetModeRaw(sc.InitMode)
		}
		if v.Plant != nil {
			v.Plant.Kind, v.Plant.Theta, v.Plant.MaxRpm, v.Plant.MaxEff, v.Plant.Const = sc.Plant.Kind, sc.Plant.Theta, sc.Plant.MaxRpm, sc.Plant.MaxEff, sc.Plant.Const
			if sc.Fan.Kind == "file" {
				v.Plant.EnablePath = ""
			} else if sc.Fan.HasEnable {
				// RPM follows the PWM value only; the control mode is not modelled in
				// the plant of the control-path checks (C03 has its own oracle)
				v.Plant.EnablePath = ""
			}
		}
		var cfg configuration.FanConfig
		if sc.Fan.Kind == "hwmon" {
			cfg = v.hwmonConfig(id, w.Curve.Id)
		} else {
			cfg = v.fileConfig(id, w.Curve.Id, sc.Fan.HasRpm)
			if sc.Fan.HomePath {
				cfg.File.Path = tildePath(cfg.File.Path)
				if cfg.File.RpmPath != "" {
					cfg.File.RpmPath = tildePath(cfg.File.RpmPath)
				}
			}
		}
		cfg.NeverStop = sc.Fan.NeverStop
		cfg.MinPwm, cfg.StartPwm, cfg.MaxPwm = sc.Fan.CfgMin, sc.Fan.CfgStart, sc.Fan.CfgMax
		if sc.Fan.ViaLoader {
			// the RPM window too is what the file says (next to a different temperature window)
			loaderWindow.Rpm, loaderWindow.Temp = sc.Window, sc.Window*7+13
			if w.PwmMap != nil && len(w.PwmMap) <= 64 {
				// ... and so is the PWM map (a configured pwmMap); fan2go gets the map as loaded, the expectation stays the map as written
				m := map[int]int{}
				for k, v := range w.PwmMap {
					m[k] = v
				}
				cfg.PwmMap = &m
			}
			loaded, lerr := fanConfigViaLoader(ctx, cfg)
			loaderWindow.Rpm = 0
			if lerr != nil {
				panic("documented fan entry not loadable: " + lerr.Error())
			}
			cfg = loaded
			configuration.CurrentConfig.RpmRollingWindowSize = loaderWindowLoaded.Rpm
			if cfg.PwmMap != nil {
				ctrlMap = *cfg.PwmMap
			}
		}
		fan, err := fans.NewFan(cfg)
		if err != nil {
			panic(err)
		}
		if m := configuredMapOf(fan); m != nil && cfg.PwmMap != nil {
			ctrlMap = m // (fan2go's controller takes a configured pwmMap from the fan object)
		}
		if sc.Fan.Measured != nil {
			data := map[int]float64{}
			for k, val := range sc.Fan.Measured {
				data[k] = val
			}
			if err := fan.AttachFanRpmCurveData(&data); err != nil {
				panic(err)
			}
		}
		w.Fan = fan
	case "cmd":
		dir := ctx.Path(uniqueId("cmdfan"))
		_ = os.MkdirAll(dir, 0755)
		w.cmdDir = dir
		_ = os.WriteFile(filepath.Join(dir, "pwm"), []byte(strconv.Itoa(sc.InitPwm)), 0644)
		_ = os.WriteFile(filepath.Join(dir, "lastset"), []byte(strconv.Itoa(sc.InitPwm)), 0644)
		_ = os.WriteFile(filepath.Join(dir, "theta"), []byte(strconv.Itoa(sc.Plant.Theta)), 0644)
		// while the file "setfail" exists the set command fails without touching the device
		cmdScript(filepath.Join(dir, "set.sh"), "if [ -e "+dir+"/setfail ]; then exit 1; fi; echo \"$1\" > "+dir+"/pwm; echo \"$1\" > "+dir+"/lastset; echo \"$1\" >> "+dir+"/writes")
		// while the file "garble" exists the tool answers with a message instead of the value (exit status 0)
		// while the file "flaky" exists every second query is answered that way (a rate-limited embedded controller)
		cmdScript(filepath.Join(dir, "get.sh"), "if [ -e "+dir+"/getfail ]; then echo 'device busy' >&2; exit 1; fi; if [ -e "+dir+"/chatty ] && [ \"$(cat "+dir+"/pwm)\" != \"$(cat "+dir+"/lastset 2>/dev/null)\" ]; then echo 'warning: channel is under firmware control' >&2; fi; if [ -e "+dir+"/flaky ]; then n=$(cat "+dir+"/flaky); n=$((n+1)); echo $n > "+dir+"/flaky; if [ $((n%2)) = 0 ]; then echo 'device busy'; exit 0; fi; fi; if [ -e "+dir+"/garble ]; then echo 'device busy'; elif [ -e "+dir+"/padded ]; then printf '%03d\\n' $(cat "+dir+"/pwm); else cat "+dir+"/pwm; fi")
		if sc.Fan.CmdChatty {
			_ = os.WriteFile(filepath.Join(dir, "chatty"), []byte("1"), 0644)
		}
		if sc.Fan.CmdPadded {
			// the tool prints fixed-width, zero-padded decimals (064)
			_ = os.WriteFile(filepath.Join(dir, "padded"), []byte("1"), 0644)
		}
		cmdScript(filepath.Join(dir, "rpm.sh"), "if [ -e "+dir+"/chatty ]; then echo 'warning: tachometer polled too often' >&2; fi; p=$(cat "+dir+"/pwm); t=$(cat "+dir+"/theta); if [ \"$p\" -lt \"$t\" ]; then echo 0; else echo $((200+p*"+strconv.Itoa(sc.Plant.MaxRpm)+"/255)); fi")
		cfg := configuration.FanConfig{ID: id, Curve: w.Curve.Id, NeverStop: sc.Fan.NeverStop,
			Cmd: &configuration.CmdFanConfig{
				SetPwm: &configuration.ExecConfig{Exec: filepath.Join(dir, "set.sh"), Args: []string{"%pwm%"}},
			}}
		if sc.Fan.HasPwm {
			cfg.Cmd.GetPwm = &configuration.ExecConfig{Exec: filepath.Join(dir, "get.sh")}
		}
		if sc.Fan.CmdTwice {
			// one argument "<pwm> <pwm>" (a command driving two controls): both halves must be the number
			cmdScript(filepath.Join(dir, "set2.sh"), "a=${1%% *}; b=${1##* }; if [ \"$a\" = \"$b\" ]; then v=$a; else v=\"$1\"; fi; echo \"$v\" > "+dir+"/pwm; echo \"$v\" > "+dir+"/lastset; echo \"$v\" >> "+dir+"/writes")
			cfg.Cmd.SetPwm = &configuration.ExecConfig{Exec: filepath.Join(dir, "set2.sh"), Args: []string{"%pwm% %pwm%"}}
		}
		if sc.Fan.HasRpm {
			cfg.Cmd.GetRpm = &configuration.ExecConfig{Exec: filepath.Join(dir, "rpm.sh")}
		}
		if sc.Fan.CmdOneTool {
			tool := filepath.Join(dir, "tool.sh")
			cmdScript(tool, "sub=$1; shift; case \"$sub\" in set) exec "+dir+"/set.sh \"$@\";; get) exec "+dir+"/get.sh;; rpm) exec "+dir+"/rpm.sh;; esac; exit 64")
			cfg.Cmd.SetPwm = &configuration.ExecConfig{Exec: tool, Args: []string{"set", "%pwm%"}}
			if cfg.Cmd.GetPwm != nil {
				cfg.Cmd.GetPwm = &configuration.ExecConfig{Exec: tool, Args: []string{"get"}}
			}
			if cfg.Cmd.GetRpm != nil {
				cfg.Cmd.GetRpm = &configuration.ExecConfig{Exec: tool, Args: []string{"rpm"}}
			}
		}
		if sc.Fan.ViaLoader {
			// the RPM window too is what the file says (next to a different temperature window)
			loaderWindow.Rpm, loaderWindow.Temp = sc.Window, sc.Window*7+13
			if w.PwmMap != nil && len(w.PwmMap) <= 64 {
				// ... and so is the PWM map (a configured pwmMap); fan2go gets the map as loaded, the expectation stays the map as written
				m := map[int]int{}
				for k, v := range w.PwmMap {
					m[k] = v
				}
				cfg.PwmMap = &m
			}
			loaded, lerr := fanConfigViaLoader(ctx, cfg)
			loaderWindow.Rpm = 0
			if lerr != nil {
				panic("documented fan entry not loadable: " + lerr.Error())
			}
			cfg = loaded
			configuration.CurrentConfig.RpmRollingWindowSize = loaderWindowLoaded.Rpm
			if cfg.PwmMap != nil {
				ctrlMap = *cfg.PwmMap
			}
		}
		fan, err := fans.NewFan(cfg)
		if err != nil {
			panic(err)
		}
		if m := configuredMapOf(fan); m != nil && cfg.PwmMap != nil {
			ctrlMap = m
		}
		w.Fan = fan
	default: // sim
		s := &SimFan{Id: id, CurveId: w.Curve.Id, NeverStop: sc.Fan.NeverStop, Min: sc.Fan.SimMin, Max: sc.Fan.SimMax,
			Start: sc.Fan.SimMin, HasPwm: sc.Fan.HasPwm, HasRpm: sc.Fan.HasRpm, HasMode: sc.Fan.HasEnable,
			PwmVal: sc.InitPwm, ModeVal: sc.InitMode}
		plant := &util.VerifPlant{Kind: sc.Plant.Kind, Theta: sc.Plant.Theta, MaxRpm: sc.Plant.MaxRpm, MaxEff: sc.Plant.MaxEff, Const: sc.Plant.Const}
		s.RpmFn = plant.Rpm
		w.Sim = s
		w.Fan = s
	}
	w.Fan.SetRpmAvg(sc.PriorRpm)
	if ctrlMap == nil {
		ctrlMap = w.PwmMap
	}
	w.Ctrl = newController(w.Fan, sc.Loop.build(), newMemPersistence(), ctrlMap)
	return w
}

// configuredMapOf: the pwmMap a fan object carries in its configuration (where fan2go's controller looks for it)
func configuredMapOf(fan fans.Fan) map[int]int {
	var m *map[int]int
	switch f := fan.(type) {
	case *fans.HwMonFan:
		m = f.Config.PwmMap
	case *fans.FileFan:
		m = f.Config.PwmMap
	case *fans.CmdFan:
		m = f.Config.PwmMap
	}
	if m == nil {
		return nil
	}
	return *m
}

func (w *World) devicePwm() int {
	switch {
	case w.VFan != nil:
		return w.VFan.Pwm()
	case w.Sim != nil:
		return w.Sim.PwmVal
	case w.cmdDir != "":
		b, _ := os.ReadFile(filepath.Join(w.cmdDir, "pwm"))
		n, _ := strconv.Atoi(strings.TrimSpace(string(b)))
		return n
	}
	return -1
}

// trueRpm: what the device really does at its present PWM value (the plant), not what fan2go's accessors report
func (w *World) trueRpm() int {
	pwm := w.devicePwm()
	switch {
	case w.VFan != nil && w.VFan.Plant != nil:
		return w.VFan.Plant.Rpm(pwm)
	case w.Sim != nil && w.Sim.RpmFn != nil:
		return w.Sim.RpmFn(pwm)
	case w.cmdDir != "":
		b, _ := os.ReadFile(filepath.Join(w.cmdDir, "theta"))
		theta, _ := strconv.Atoi(strings.TrimSpace(string(b)))
		if pwm < theta {
			return 0
		}
		return 200 + pwm*w.Sc.Plant.MaxRpm/255
	}
	return -1
}

func (w *World) setTheta(theta int, kind string) {
	switch {
	case w.VFan != nil && w.VFan.Plant != nil:
		w.VFan.Plant.Theta = theta
		if kind != "" {
			w.VFan.Plant.Kind = kind
		}
	case w.Sim != nil:
		k := w.Sc.Plant.Kind
		if kind != "" {
			k = kind
		}
		plant := &util.VerifPlant{Kind: k, Theta: theta, MaxRpm: w.Sc.Plant.MaxRpm, MaxEff: w.Sc.Plant.MaxEff}
		w.Sim.RpmFn = plant.Rpm
	case w.cmdDir != "":
		_ = os.WriteFile(filepath.Join(w.cmdDir, "theta"), []byte(strconv.Itoa(theta)), 0644)
	}
}

func (w *World) targetPath(t string) string {
	if w.VFan == nil {
		return ""
	}
	switch t {
	case "pwm":
		return w.VFan.PwmPath
	case "enable":
		return w.VFan.EnablePath
	case "rpm":
		return w.VFan.RpmPath
	}
	return ""
}

// runScenario executes the scenario against the real controller and calls obs
// after every control cycle.
func runScenario(ctx *Ctx, sc *Scenario, obs Observer) {
	w := buildWorld(ctx, sc)
	d := driver
	var pwmWrites, modeWrites []int
	var pwmWriteErrs int
	var opsInCycle int
	var mid *MidIntrusion
	var midApplied bool
	intrusions := 0
	if w.VFan != nil {
		v := w.VFan
		d.Hook = func(ev *util.VerifEvent) {
			opsInCycle++
			if mid != nil && opsInCycle == mid.AtOp {
				if mid.Pwm != nil {
					x := *mid.Pwm
					if w.Quant != nil {
						x = w.Quant(x)
					}
					d.Mem[v.PwmPath] = strconv.Itoa(x)
				}
				if mid.Mode != nil && sc.Fan.HasEnable {
					d.Mem[v.EnablePath] = strconv.Itoa(*mid.Mode)
				}
				midApplied = true
			}
			if ev.Op != "w" {
				return
			}
			if ev.Path == v.PwmPath {
				pwmWrites = append(pwmWrites, ev.Val)
				if ev.Err != "" {
					pwmWriteErrs++
				} else if w.Quant != nil && ev.Action == "" {
					// the "device" stores the nearest level it supports
					d.Mem[v.PwmPath] = strconv.Itoa(w.Quant(ev.Val))
				}
			} else if ev.Path == v.EnablePath {
				modeWrites = append(modeWrites, ev.Val)
			}
		}
	}
	var prevReq int
	hadPrev := false
	for i := range sc.Steps {
		st := &sc.Steps[i]
		if st.Theta != nil {
			w.setTheta(*st.Theta, st.PlantK)
		}
		rec := &CycleRecord{Idx: i, Step: st}
		if st.PollFault != nil && w.VFan != nil {
			d.Rules = []*util.VerifRule{{Path: w.targetPath(st.PollFault.Target), Op: st.PollFault.Op, Action: st.PollFault.Action, Errno: st.PollFault.Errno, Raw: st.PollFault.Raw}}
		}
		for p := 0; p < st.Polls; p++ {
			if w.Fan.Supports(fans.FeatureRpmSensor) {
				w.Ctrl.VerifMeasureRpm()
				if rpm := w.trueRpm(); rpm >= 0 {
					rec.LastRpm = rpm
					if rpm == 0 {
						rec.RpmSeenZero = true
					}
				}
			}
		}
		if st.PollFault != nil && w.VFan != nil {
			d.Rules = nil
		}
		if st.Intrude != nil {
			if st.Intrude.Pwm != nil {
				switch {
				case w.VFan != nil:
					x := *st.Intrude.Pwm
					if w.Quant != nil {
						x = w.Quant(x)
					}
					w.VFan.SetPwmRaw(x)
				case w.Sim != nil:
					w.Sim.PwmVal = *st.Intrude.Pwm
				case w.cmdDir != "":
					_ = os.WriteFile(filepath.Join(w.cmdDir, "pwm"), []byte(strconv.Itoa(*st.Intrude.Pwm)), 0644)
				}
			}
			if st.Intrude.Mode != nil {
				switch {
				case w.VFan != nil && sc.Fan.HasEnable:
					w.VFan.SetModeRaw(*st.Intrude.Mode)
				case w.Sim != nil:
					w.Sim.ModeVal = *st.Intrude.Mode
				}
			}
		}
		if st.Fault != nil && w.VFan != nil {
			d.Rules = []*util.VerifRule{{Path: w.targetPath(st.Fault.Target), Op: st.Fault.Op, Action: st.Fault.Action, Errno: st.Fault.Errno, Raw: st.Fault.Raw}}
		}
		w.Curve.Val = st.Curve
		advance(time.Duration(st.DtMs) * time.Millisecond)
		rec.MinBefore, rec.MaxBefore = w.Fan.GetMinPwm(), w.Fan.GetMaxPwm()
		rec.StatsBefore = w.Ctrl.GetStatistics()
		rec.RpmAvgBefore = w.Fan.GetRpmAvg()
		rec.HadPrev, rec.PrevRequest = hadPrev, prevReq
		rec.DevPwmBefore = w.devicePwm()
		pwmWrites, modeWrites, pwmWriteErrs = nil, nil, 0
		opsInCycle, mid, midApplied = 0, st.Mid, false
		if w.Sim != nil {
			w.Sim.Calls = nil
		}
		var cmdWritesBefore int
		if w.cmdDir != "" {
			cmdWritesBefore = countLines(filepath.Join(w.cmdDir, "writes"))
		}
		if st.Intrude != nil || st.Mid != nil {
			intrusions++
		}
		if st.Intrude != nil && st.Intrude.Unreadable && w.cmdDir != "" {
			_ = os.WriteFile(filepath.Join(w.cmdDir, "garble"), []byte("1"), 0644)
		}
		if st.CmdFail && w.cmdDir != "" {
			_ = os.WriteFile(filepath.Join(w.cmdDir, "getfail"), []byte("1"), 0644)
			_ = os.WriteFile(filepath.Join(w.cmdDir, "setfail"), []byte("1"), 0644)
		}
		panicked, msg, stuck := GuardStuck(func() { rec.Err = w.Ctrl.UpdateFanSpeed() })
		if panicked {
			rec.Panic = msg
		}
		if stuck != "" {
			// the cycle never returns: whatever this cycle had to do for the fan stays undone, and so does every later one
			what := fmt.Sprintf("cycle %d of %s never returned; a fan2go goroutine has been waiting for a lock for minutes:\n%s", i, describe(sc), stuck)
			if ctx.Name == "C05" && intrusions > 0 {
				ctx.Violation("control-cycle-deadlocks-after-interference:"+sc.Fan.Label(), fmt.Sprintf("after %d third-party changes the fan is left as the third party set it (device pwm %d): %s", intrusions, w.devicePwm(), what), sc)
			} else {
				ctx.Inconclusive("a control cycle deadlocked: " + what)
			}
			ctx.Abort = true
			panic(abortBatch{})
		}
		if st.Intrude != nil && st.Intrude.Unreadable && w.cmdDir != "" {
			_ = os.Remove(filepath.Join(w.cmdDir, "garble"))
		}
		if st.CmdFail && w.cmdDir != "" {
			_ = os.Remove(filepath.Join(w.cmdDir, "getfail"))
			_ = os.Remove(filepath.Join(w.cmdDir, "setfail"))
		}
		d.Rules = nil
		mid = nil
		rec.MidApplied = midApplied
		rec.OpsInCycle = opsInCycle
		if w.Sim != nil {
			for _, c := range w.Sim.Calls {
				if strings.HasPrefix(c, "SetPwm:") {
					n, _ := strconv.Atoi(c[7:])
					pwmWrites = append(pwmWrites, n)
				} else if strings.HasPrefix(c, "SetPwmEnabled:") {
					n, _ := strconv.Atoi(c[14:])
					modeWrites = append(modeWrites, n)
				}
			}
		}
		if w.cmdDir != "" {
			lines := readLines(filepath.Join(w.cmdDir, "writes"))
			for _, l := range lines[cmdWritesBefore:] {
				n, err := strconv.Atoi(strings.TrimSpace(l))
				if err != nil {
					n = -99999
				}
				pwmWrites = append(pwmWrites, n)
			}
		}
		rec.PwmWrites, rec.ModeWrites, rec.PwmWriteErrs = pwmWrites, modeWrites, pwmWriteErrs
		rec.MinAfter, rec.MaxAfter = w.Fan.GetMinPwm(), w.Fan.GetMaxPwm()
		rec.StatsAfter = w.Ctrl.GetStatistics()
		if rec.Err == nil && rec.Panic == "" {
			rec.Request, rec.HasRequest = w.Ctrl.VerifLastSetPwm()
		}
		rec.DevPwmAfter = w.devicePwm()
		if w.VFan != nil && sc.Fan.HasEnable {
			rec.DevModeAfter = w.VFan.Mode()
		} else if w.Sim != nil {
			rec.DevModeAfter = w.Sim.ModeVal
		}
		stop := obs(w, rec)
		if rec.HasRequest {
			prevReq, hadPrev = rec.Request, true
		}
		if stop || rec.Err != nil || rec.Panic != "" {
			break
		}
	}
	d.Hook = nil
	if w.cmdDir != "" {
		_ = os.RemoveAll(w.cmdDir)
	}
	if w.VFan != nil {
		// forget the virtual device again (the process creates thousands)
		delete(d.Mem, w.VFan.PwmPath)
		delete(d.Mem, w.VFan.EnablePath)
		delete(d.Plants, w.VFan.RpmPath)
		_ = os.RemoveAll(w.VFan.Dir)
	}
}

func countLines(path string) int { return len(readLines(path)) }

func readLines(path string) []string {
	b, err := os.ReadFile(path)
	if err != nil {
		return nil
	}
	s := strings.TrimRight(string(b), "\n")
	if s == "" {
		return nil
	}
	return strings.Split(s, "\n")
}

// ---------- generation ----------

func genLimits(r *rand.Rand) (int, int) {
	switch r.Intn(10) {
	case 0:
		return 0, 255
	case 1:
		return 0, pick(r, 1, 2, 100, 254)
	case 2:
		return pick(r, 1, 50, 254), 255
	case 3:
		v := r.Intn(256)
		return v, v
	case 4:
		v := r.Intn(255)
		return v, v + 1
	case 5:
		return 254, 255
	default:
		a, b := r.Intn(256), r.Intn(256)
		if a > b {
			a, b = b, a
		}
		return a, b
	}
}

func genMap(r *rand.Rand, allowQuant bool) MapSpec {
	k := r.Intn(10)
	switch {
	case k < 4:
		return MapSpec{Kind: "identity"}
	case k == 4:
		return MapSpec{Kind: "readme"}
	case k == 5:
		return MapSpec{Kind: "hundred"}
	case k < 8 && allowQuant:
		return MapSpec{Kind: "quant", Levels: 2 + r.Intn(15)}
	default:
		// sparse monotone map over 1..40 keys, outputs in 0..255
		n := 1 + r.Intn(40)
		m := map[int]int{}
		keys := r.Perm(256)[:n]
		vals := make([]int, n)
		for i := range vals {
			vals[i] = r.Intn(256)
		}
		sortInts(keys)
		sortInts(vals)
		for i, k := range keys {
			m[k] = vals[i]
		}
		return MapSpec{Kind: "sparse", Map: m}
	}
}

func sortInts(a []int) {
	for i := 1; i < len(a); i++ {
		for j := i; j > 0 && a[j-1] > a[j]; j-- {
			a[j-1], a[j] = a[j], a[j-1]
		}
	}
}

func genLoop(r *rand.Rand) LoopSpec {
	switch r.Intn(6) {
	case 0, 1:
		return LoopSpec{Kind: "direct"}
	case 2:
		return LoopSpec{Kind: "ratelimit", M: pick(r, 1, 2, 3, 10, 50, 254, 255, 1+r.Intn(255))}
	case 3:
		return LoopSpec{Kind: "pid", P: 0.3, I: 0.02, D: 0.005}
	default:
		g := func() float64 {
			switch r.Intn(6) {
			case 0:
				return 0
			case 1:
				return -(1e-4 + r.Float64()*10)
			default:
				return 1e-4 + r.Float64()*pick(r, 0.01, 1.0, 10.0)
			}
		}
		l := LoopSpec{Kind: "pid", P: g(), I: g(), D: g()}
		if l.P == 0 && l.I == 0 && l.D == 0 {
			l.P = 0.3
		}
		return l
	}
}

func genDt(r *rand.Rand) int64 {
	return pick(r, int64(0), 1, 50, 50, 200, 200, 1000, 2000, 3600000)
}

func genCurveTrajectory(r *rand.Rand, n int, outOfRange bool) []int {
	out := make([]int, n)
	kind := r.Intn(6)
	cur := r.Intn(256)
	for i := range out {
		switch kind {
		case 0: // constant
		case 1: // steps
			if r.Intn(15) == 0 {
				cur = r.Intn(256)
			}
		case 2: // ramp
			cur = (cur + 3) % 256
		case 3: // random walk
			cur += r.Intn(21) - 10
			if cur < 0 {
				cur = 0
			}
			if cur > 255 {
				cur = 255
			}
		case 4: // alternating extremes
			if i%2 == 0 {
				cur = 0
			} else {
				cur = 255
			}
		default:
			cur = r.Intn(256)
		}
		out[i] = cur
		if outOfRange && r.Intn(12) == 0 {
			out[i] = pick(r, -1000, -1, 256, 1000000, -1<<40, 1<<40)
		}
	}
	return out
}

// tildePath writes an absolute path in the "~" form fan2go documents for file fans and sensors (it joins the rest
// to the user's home directory, so enough ".." lead back to the root)
func tildePath(abs string) string {
	return "~" + strings.Repeat("/..", 12) + abs
}

// homeKind: "file-home" = a file fan whose paths are given in the "~" form; a third of the plain file fans too
func homeKind(r *rand.Rand, kind string) (string, bool) {
	if kind == "file-home" {
		return "file", true
	}
	return kind, kind == "file" && r.Intn(3) == 0
}

// noisyMeasurement: a measured RPM curve is not smooth - a third of them get a few samples in the rising part that lie
// slightly below their predecessor (never 0, never reaching the top), which changes neither the first PWM with rotation
// nor the first PWM with the highest RPM.
func noisyMeasurement(r *rand.Rand, data map[int]float64, start, top int) {
	if r.Intn(4) == 0 {
		// tachometer dropouts: single 0 readings above the PWM at which the fan starts (also above the PWM of the
		// highest RPM, and at 255); lowest non-zero PWM and lowest PWM of the highest RPM stay what they are
		var above []int
		for k := range data {
			if k > start && k != top {
				above = append(above, k)
			}
		}
		sortInts(above)
		for n := 0; n < 2 && len(above) > 0; n++ {
			data[above[r.Intn(len(above))]] = 0
		}
		if r.Intn(2) == 0 && top < 255 && start < 255 {
			data[255] = 0
		}
	}
	if r.Intn(3) != 0 {
		return
	}
	var ks []int
	for k := range data {
		if k > start && k < top {
			ks = append(ks, k)
		}
	}
	sortInts(ks)
	for n := 0; n < 3 && len(ks) > 1; n++ {
		i := 1 + r.Intn(len(ks)-1)
		if v := data[ks[i-1]] - float64(5+r.Intn(40)); v >= 100 {
			data[ks[i]] = v
		}
	}
}

func genFan(r *rand.Rand, kinds []string) (FanSpec, int, int) {
	kind, home := homeKind(r, pick(r, kinds...))
	mn, mx := genLimits(r)
	f := FanSpec{Kind: kind, HomePath: home, ViaLoader: kind != "sim" && r.Intn(4) == 0, NeverStop: r.Intn(3) > 0, HasRpm: r.Intn(5) > 0, HasEnable: r.Intn(4) > 0, HasPwm: true}
	switch kind {
	case "hwmon":
		if part := r.Intn(5); part == 0 {
			// only some of the limits configured, the others measured: measured start at ms, measured maximum at mm
			ms, mm := genLimits(r)
			data := map[int]float64{}
			for p := 0; p <= 255; p += 1 + r.Intn(6) {
				switch {
				case p < ms:
					data[p] = 0
				case p >= mm:
					data[p] = 3000
				default:
					data[p] = 500 + float64(p-ms)*2000/float64(mm-ms+1)
				}
			}
			data[ms] = 500
			if mm > ms {
				data[mm] = 3000
			} else {
				data[ms] = 3000
			}
			if ms > 0 {
				data[ms-1] = 0
			}
			noisyMeasurement(r, data, ms, mm)
			f.Measured = data
			switch r.Intn(3) {
			case 0: // maximum configured (at or above the measured start), minimum measured
				mx = ms + r.Intn(256-ms)
				f.CfgMax = iptr(mx)
				mn = ms
				f.ExpMin, f.ExpMax = iptr(ms), iptr(mx)
			case 1: // minimum configured (at or below the measured maximum), maximum measured
				mn = r.Intn(mm + 1)
				f.CfgMin = iptr(mn)
				mx = mm
				f.ExpMin, f.ExpMax = iptr(mn), iptr(mm)
			default: // maximum and start configured, minimum left to fan2go
				mx = ms + r.Intn(256-ms)
				f.CfgMax = iptr(mx)
				f.CfgStart = iptr(r.Intn(mx + 1))
				mn = *f.CfgStart
				f.ExpMax = iptr(mx)
			}
			if !f.NeverStop {
				f.ExpMin = iptr(0)
			}
		} else if part <= 2 {
			f.CfgMin, f.CfgMax = iptr(mn), iptr(mx)
			switch r.Intn(4) {
			case 0:
				f.CfgStart = iptr(mn)
			case 1:
				// any start value, also one below the minimum or above the maximum (fan2go warns about a
				// "suspicious" configuration and keeps every limit as configured)
				f.CfgStart = iptr(r.Intn(256))
			case 2:
				if mn > 0 {
					f.CfgStart = iptr(r.Intn(mn))
				}
			}
			f.ExpMin, f.ExpMax = iptr(mn), iptr(mx)
			if !f.NeverStop {
				f.ExpMin = iptr(0)
			}
		} else {
			// measured limits: first non-zero RPM at mn, highest RPM first reached at mx
			data := map[int]float64{}
			for p := 0; p <= 255; p += 1 + r.Intn(6) {
				switch {
				case p < mn:
					data[p] = 0
				case p >= mx:
					data[p] = 3000
				default:
					data[p] = 500 + float64(p-mn)*2000/float64(mx-mn+1)
				}
			}
			data[mn] = 500
			if mx > mn {
				data[mx] = 3000
			} else {
				data[mn] = 3000
			}
			if mn > 0 {
				data[mn-1] = 0
			}
			noisyMeasurement(r, data, mn, mx)
			f.Measured = data
			f.ExpMin, f.ExpMax = iptr(mn), iptr(mx)
			if !f.NeverStop {
				f.ExpMin = iptr(0)
			}
		}
	case "sim":
		f.SimMin, f.SimMax = mn, mx
		f.HasPwm = r.Intn(3) > 0
	default:
		// file and cmd fans have fixed limits 0..255
		mn, mx = 0, 255
		if !f.NeverStop && r.Intn(3) == 0 {
			// a configured minimum on a fan that may stop: the minimum in force is 0 for every backend
			f.CfgMin = iptr(1 + r.Intn(200))
			f.ExpMin = iptr(0)
		}
		if kind == "cmd" {
			f.HasPwm = r.Intn(3) > 0 // a third of the cmd fans are write-only (no getPwm command)
			f.CmdTwice = r.Intn(3) == 0
			f.CmdPadded = r.Intn(3) == 0
			f.CmdChatty = r.Intn(3) == 0
			f.CmdOneTool = !f.CmdTwice && r.Intn(2) == 0
		}
	}
	if !f.NeverStop {
		mn = 0
	}
	return f, mn, mx
}

func describe(sc *Scenario) string {
	return fmt.Sprintf("%s/ns=%v/%s/%s", sc.Fan.Kind, sc.Fan.NeverStop, sc.Loop.Kind, sc.Map.Kind)
}
