package main

import (
	"fmt"
	"math/rand"
	"os"
	"path/filepath"
	"sort"
	"strings"

	"github.com/markusressel/fan2go/internal"
	"github.com/markusressel/fan2go/internal/configuration"
	"github.com/markusressel/fan2go/internal/hwmon"
	"github.com/markusressel/fan2go/internal/sensors"
	"github.com/prometheus/client_golang/prometheus"
)

// C17 (in-process layer) — hwmon entries bind to the device the user named, or fail cleanly.
//
// Generated fake hwmon trees (1..4 chips, fans on arbitrary channel subsets, temperature inputs on
// arbitrary indices incl. features without an input file, permuted enumeration order) are read by the
// real hwmon.GetChips() through the gosensors stand-in; generated selectors are resolved by the real
// UpdateFanConfigFromHwMonControllers / InitializeObjects and compared with a reference resolution
// computed from the tree description.

type c17Chip struct {
	Dir      string `json:"dir"`
	Name     string `json:"name"`
	Fans     []int  `json:"fans"`     // channels with fanN_input
	Temps    []int  `json:"temps"`    // indices with tempN_input
	TempOnly []int  `json:"tempOnly"` // tempN features without an input file (tempN_max only)
}

type c17Tree struct {
	Chips []c17Chip `json:"chips"`
	Order []string  `json:"order"`
}

var c17Names = []string{"nct6798", "it8620", "coretemp", "acpitz", "amdgpu", "k10temp", "corsaircpro", "nvme"}

func genC17Tree(r *rand.Rand) *c17Tree {
	t := &c17Tree{}
	n := 1 + r.Intn(4)
	names := r.Perm(len(c17Names))[:n]
	for i := 0; i < n; i++ {
		c := c17Chip{Dir: fmt.Sprintf("hwmon%d", i), Name: c17Names[names[i]]}
		for ch := 1; ch <= 6; ch++ {
			if r.Intn(2) == 0 {
				c.Fans = append(c.Fans, ch)
			}
		}
		for ix := 1; ix <= 6; ix++ {
			switch r.Intn(4) {
			case 0, 1:
				c.Temps = append(c.Temps, ix)
			case 2:
				c.TempOnly = append(c.TempOnly, ix)
			}
		}
		if len(c.Fans) == 0 && len(c.Temps) == 0 {
			c.Temps = []int{1}
		}
		t.Chips = append(t.Chips, c)
	}
	for _, i := range r.Perm(n) {
		t.Order = append(t.Order, t.Chips[i].Dir)
	}
	return t
}

func (t *c17Tree) materialise(root string) {
	_ = os.RemoveAll(root)
	_ = os.MkdirAll(root, 0755)
	uniq := 1000
	w := func(p string) {
		uniq++
		_ = os.WriteFile(p, []byte(fmt.Sprintf("%d\n", uniq)), 0644)
	}
	for _, c := range t.Chips {
		d := filepath.Join(root, c.Dir)
		_ = os.MkdirAll(d, 0755)
		_ = os.WriteFile(filepath.Join(d, "name"), []byte(c.Name+"\n"), 0644)
		for ch := 1; ch <= 6; ch++ {
			// pwm controls exist for every channel, also where no fan input exists
			w(filepath.Join(d, fmt.Sprintf("pwm%d", ch)))
			_ = os.WriteFile(filepath.Join(d, fmt.Sprintf("pwm%d_enable", ch)), []byte("2\n"), 0644)
		}
		for _, ch := range c.Fans {
			w(filepath.Join(d, fmt.Sprintf("fan%d_input", ch)))
		}
		for _, ix := range c.Temps {
			w(filepath.Join(d, fmt.Sprintf("temp%d_input", ix)))
			_ = os.WriteFile(filepath.Join(d, fmt.Sprintf("temp%d_max", ix)), []byte("90000\n"), 0644)
		}
		for _, ix := range c.TempOnly {
			_ = os.WriteFile(filepath.Join(d, fmt.Sprintf("temp%d_max", ix)), []byte("90000\n"), 0644)
		}
	}
	_ = os.WriteFile(filepath.Join(root, "ORDER"), []byte(strings.Join(t.Order, "\n")+"\n"), 0644)
}

type c17FanSel struct {
	Chip       int  `json:"chip"` // index into Chips, -1 = unknown platform
	Index      int  `json:"index,omitempty"`
	RpmChannel int  `json:"rpmChannel,omitempty"`
	PwmChannel int  `json:"pwmChannel,omitempty"`
}

type c17SensorSel struct {
	Chip  int `json:"chip"`
	Index int `json:"index"`
}

// reference resolution
func (t *c17Tree) refFan(root string, s c17FanSel) (rpm, pwm, en string, ok bool) {
	if s.Chip < 0 {
		return "", "", "", false
	}
	c := t.Chips[s.Chip]
	fans := append([]int(nil), c.Fans...)
	sort.Ints(fans)
	ch := 0
	if s.RpmChannel > 0 {
		for _, f := range fans {
			if f == s.RpmChannel {
				ch = f
			}
		}
	} else if s.Index >= 1 && s.Index <= len(fans) {
		ch = fans[s.Index-1]
	}
	if ch == 0 {
		return "", "", "", false
	}
	pc := ch
	if s.PwmChannel > 0 {
		pc = s.PwmChannel
	}
	d := filepath.Join(root, c.Dir)
	return filepath.Join(d, fmt.Sprintf("fan%d_input", ch)), filepath.Join(d, fmt.Sprintf("pwm%d", pc)), filepath.Join(d, fmt.Sprintf("pwm%d_enable", pc)), true
}

func (t *c17Tree) refSensor(root string, s c17SensorSel) (string, bool) {
	if s.Chip < 0 {
		return "", false
	}
	c := t.Chips[s.Chip]
	temps := append([]int(nil), c.Temps...)
	sort.Ints(temps)
	if s.Index < 1 || s.Index > len(temps) {
		return "", false
	}
	return filepath.Join(root, c.Dir, fmt.Sprintf("temp%d_input", temps[s.Index-1])), true
}

func (t *c17Tree) platform(chip int) string {
	if chip < 0 {
		return "nosuchchip"
	}
	return t.Chips[chip].Name
}

func runC17(ctx *Ctx, idx int) {
	r := ctx.Rng
	root := ctx.Path("c17root")
	t := genC17Tree(r)
	t.materialise(root)
	_ = os.Setenv("FAN2GO_VERIF_HWMON_ROOT", root)
	ctx.LogCase(map[string]interface{}{"class": "process-died", "tree": t})
	var controllers []*hwmon.HwMonController
	if p, msg := Guard(func() { controllers = hwmon.GetChips() }); p {
		ctx.Violation("panic-in-GetChips", msg, t)
		return
	}
	// ---- fans
	for k := 0; k < 12; k++ {
		sel := c17FanSel{Chip: r.Intn(len(t.Chips))}
		if r.Intn(10) == 0 {
			sel.Chip = -1
		}
		if r.Intn(2) == 0 {
			sel.RpmChannel = 1 + r.Intn(7)
		} else {
			sel.Index = 1 + r.Intn(7)
		}
		if r.Intn(3) == 0 {
			sel.PwmChannel = 1 + r.Intn(6)
		}
		id := fmt.Sprintf("fan-%d-%d", idx, k)
		cfg := configuration.FanConfig{ID: id, Curve: "c", HwMon: &configuration.HwMonFanConfig{Platform: t.platform(sel.Chip), Index: sel.Index, RpmChannel: sel.RpmChannel, PwmChannel: sel.PwmChannel}}
		var err error
		p, msg := Guard(func() { err = hwmon.UpdateFanConfigFromHwMonControllers(controllers, &cfg) })
		ctx.Eval(1)
		replay := map[string]interface{}{"tree": t, "fan": sel}
		wantRpm, wantPwm, wantEn, exists := t.refFan(root, sel)
		kind := "index"
		if sel.RpmChannel > 0 {
			kind = "rpmChannel"
		}
		if sel.PwmChannel > 0 {
			kind += "+pwmChannel"
		}
		if p {
			ctx.Violation("fan:panic:"+kind, msg, replay)
			continue
		}
		switch {
		case exists && err != nil:
			ctx.Violation("fan:existing-device-not-bound:"+kind, fmt.Sprintf("%v: %v", jsonStr(replay), err), replay)
		case exists:
			h := cfg.HwMon
			if h.RpmInputPath != wantRpm || h.PwmPath != wantPwm || h.PwmEnablePath != wantEn {
				ctx.Violation("fan:bound-to-wrong-device:"+kind, fmt.Sprintf("%s: got %s / %s / %s, want %s / %s / %s", jsonStr(replay), h.RpmInputPath, h.PwmPath, h.PwmEnablePath, wantRpm, wantPwm, wantEn), replay)
			}
			ctx.Nontrivial(fmt.Sprintf("fan|%s|chips%d|order%v|%v", kind, len(t.Chips), t.Order, sel))
		case err == nil:
			cls := "missing-" + kind
			if sel.Chip < 0 {
				cls = "unknown-platform"
			}
			ctx.Violation("fan:non-existing-device-silently-bound:"+cls, fmt.Sprintf("%s: bound to %s / %s", jsonStr(replay), cfg.HwMon.RpmInputPath, cfg.HwMon.PwmPath), replay)
		default:
			if !strings.Contains(err.Error(), id) {
				ctx.Violation("fan:error-does-not-name-the-entry", fmt.Sprintf("%s: %v", jsonStr(replay), err), replay)
			}
			ctx.Count("fan_selectors_without_device_rejected", 1)
		}
	}
	// ---- sensors (through the daemon's InitializeObjects)
	for k := 0; k < 6; k++ {
		sel := c17SensorSel{Chip: r.Intn(len(t.Chips)), Index: 1 + r.Intn(7)}
		if r.Intn(10) == 0 {
			sel.Chip = -1
		}
		id := fmt.Sprintf("sensor-%d-%d", idx, k)
		fanFile := filepath.Join(root, "filefan")
		_ = os.WriteFile(fanFile, []byte("100\n"), 0644)
		configuration.CurrentConfig = configuration.Configuration{
			Sensors: []configuration.SensorConfig{{ID: id, HwMon: &configuration.HwMonSensorConfig{Platform: t.platform(sel.Chip), Index: sel.Index}}},
			Curves:  []configuration.CurveConfig{{ID: id + "-curve", Linear: &configuration.LinearCurveConfig{Sensor: id, Min: 40, Max: 80}}},
			Fans:    []configuration.FanConfig{{ID: id + "-fan", Curve: id + "-curve", File: &configuration.FileFanConfig{Path: fanFile}}},
		}
		reg := prometheus.NewRegistry()
		prometheus.DefaultRegisterer, prometheus.DefaultGatherer = reg, reg
		var err error
		p, msg := Guard(func() { _, err = internal.InitializeObjects() })
		ctx.Eval(1)
		replay := map[string]interface{}{"tree": t, "sensor": sel}
		want, exists := t.refSensor(root, sel)
		cls := "missing-index"
		if sel.Chip < 0 {
			cls = "unknown-platform"
		}
		if p {
			ctx.Violation("sensor:panic:"+cls, firstLines(msg, 6), replay)
			continue
		}
		switch {
		case exists && err != nil:
			ctx.Violation("sensor:existing-device-not-bound", fmt.Sprintf("%s: %v", jsonStr(replay), err), replay)
		case exists:
			s, _ := sensors.GetSensor(id)
			hs, ok := s.(*sensors.HwmonSensor)
			if !ok || hs.Input != want {
				got := "<none>"
				if ok {
					got = hs.Input
				}
				ctx.Violation("sensor:bound-to-wrong-device", fmt.Sprintf("%s: got %s want %s", jsonStr(replay), got, want), replay)
			}
			ctx.Nontrivial(fmt.Sprintf("sensor|chips%d|order%v|%v", len(t.Chips), t.Order, sel))
		case err == nil:
			ctx.Violation("sensor:non-existing-device-silently-bound:"+cls, jsonStr(replay), replay)
		default:
			if !strings.Contains(err.Error(), id) {
				ctx.Violation("sensor:error-does-not-name-the-entry", fmt.Sprintf("%s: %v", jsonStr(replay), err), replay)
			}
			ctx.Count("sensor_selectors_without_device_rejected", 1)
		}
	}
	if idx < 2 {
		ctx.Sample(map[string]interface{}{"tree": t})
	}
}

func init() {
	register("C17", func(ctx *Ctx) {
		n := ctx.N(3000, 40000)
		for i := 0; i < n; i++ {
			runC17(ctx, i)
		}
	})
}
