package main

import (
	"fmt"
	"math/rand"
	"os"
	"path/filepath"
	"sort"
	"strings"

	"github.com/markusressel/fan2go/internal"
	"github.com/markusressel/fan2go/internal/configuration"
	"github.com/markusressel/fan2go/internal/fans"
	"github.com/markusressel/fan2go/internal/hwmon"
	"github.com/markusressel/fan2go/internal/sensors"
	"github.com/prometheus/client_golang/prometheus"
)

// C17 (in-process layer) — hwmon entries bind to the device the user named, or fail cleanly.
//
// Generated fake hwmon trees (1..4 chips, fans on arbitrary channel subsets, temperature inputs on
// arbitrary indices incl. features without an input file, permuted enumeration order) are read by the
// real hwmon.GetChips() through the gosensors stand-in; generated selectors are resolved by the real
// UpdateFanConfigFromHwMonControllers / InitializeObjects and compared with a reference resolution
// computed from the tree description.

type c17Chip struct {
	Dir      string `json:"dir"`
	Name     string `json:"name"`
	Fans     []int  `json:"fans"`     // channels with fanN_input
	Temps    []int  `json:"temps"`    // indices with tempN_input
	TempOnly []int  `json:"tempOnly"` // tempN features without an input file (tempN_max only)
	MaxCh    int    `json:"maxCh,omitempty"` // highest channel / index the chip may have (6, or 13 for chips with two-digit channels)
	Bare     bool   `json:"bare,omitempty"` // neither fans nor temperatures nor pwm controls: a battery / power supply with a voltage input only
}

type c17Tree struct {
	Chips []c17Chip `json:"chips"`
	Order []string  `json:"order"`
}

var c17Names = []string{"nct6798", "it8620", "coretemp", "acpitz", "amdgpu", "k10temp", "corsaircpro", "nvme"}

func genC17Tree(r *rand.Rand) *c17Tree {
	t := &c17Tree{}
	n := 1 + r.Intn(4)
	names := r.Perm(len(c17Names))[:n]
	for i := 0; i < n; i++ {
		c := c17Chip{Dir: fmt.Sprintf("hwmon%d", i), Name: c17Names[names[i]]}
		// a quarter of the chips have two-digit channels (fan10.., temp12..: big boards, many-core CPUs)
		c.MaxCh = pick(r, 6, 6, 6, 13)
		for ch := 1; ch <= c.MaxCh; ch++ {
			if r.Intn(2) == 0 {
				c.Fans = append(c.Fans, ch)
			}
		}
		for ix := 1; ix <= c.MaxCh; ix++ {
			switch r.Intn(4) {
			case 0, 1:
				c.Temps = append(c.Temps, ix)
			case 2:
				c.TempOnly = append(c.TempOnly, ix)
			}
		}
		switch r.Intn(8) {
		case 0, 1: // a pure fan controller: no temperature inputs at all
			c.Temps, c.TempOnly = nil, nil
			if len(c.Fans) == 0 {
				c.Fans = []int{1 + r.Intn(6)}
			}
		case 2: // a pure temperature chip
			c.Fans = nil
		}
		if len(c.Fans) == 0 && len(c.Temps) == 0 {
			c.Temps = []int{1}
		}
		if n > 1 && r.Intn(6) == 0 {
			c.Bare, c.Fans, c.Temps, c.TempOnly = true, nil, nil, nil
		}
		t.Chips = append(t.Chips, c)
	}
	for _, i := range r.Perm(n) {
		t.Order = append(t.Order, t.Chips[i].Dir)
	}
	return t
}

func (t *c17Tree) materialise(root string) {
	_ = os.RemoveAll(root)
	_ = os.MkdirAll(root, 0755)
	uniq := 1000
	w := func(p string) {
		uniq++
		_ = os.WriteFile(p, []byte(fmt.Sprintf("%d\n", uniq)), 0644)
	}
	for _, c := range t.Chips {
		d := filepath.Join(root, c.Dir)
		_ = os.MkdirAll(d, 0755)
		_ = os.WriteFile(filepath.Join(d, "name"), []byte(c.Name+"\n"), 0644)
		if c.Bare {
			_ = os.WriteFile(filepath.Join(d, "in0_input"), []byte("12100\n"), 0644)
			continue
		}
		maxCh := c.MaxCh
		if maxCh == 0 {
			maxCh = 6
		}
		for ch := 1; ch <= maxCh; ch++ {
			// pwm controls exist for every channel, also where no fan input exists
			w(filepath.Join(d, fmt.Sprintf("pwm%d", ch)))
			_ = os.WriteFile(filepath.Join(d, fmt.Sprintf("pwm%d_enable", ch)), []byte("2\n"), 0644)
		}
		for _, ch := range c.Fans {
			w(filepath.Join(d, fmt.Sprintf("fan%d_input", ch)))
		}
		for _, ix := range c.Temps {
			w(filepath.Join(d, fmt.Sprintf("temp%d_input", ix)))
			_ = os.WriteFile(filepath.Join(d, fmt.Sprintf("temp%d_max", ix)), []byte("90000\n"), 0644)
		}
		for _, ix := range c.TempOnly {
			_ = os.WriteFile(filepath.Join(d, fmt.Sprintf("temp%d_max", ix)), []byte("90000\n"), 0644)
		}
	}
	_ = os.WriteFile(filepath.Join(root, "ORDER"), []byte(strings.Join(t.Order, "\n")+"\n"), 0644)
}

type c17FanSel struct {
	Chip       int  `json:"chip"` // index into Chips, -1 = unknown platform
	Index      int  `json:"index,omitempty"`
	RpmChannel int  `json:"rpmChannel,omitempty"`
	PwmChannel int  `json:"pwmChannel,omitempty"`
}

type c17SensorSel struct {
	Chip  int `json:"chip"`
	Index int `json:"index"`
}

// reference resolution
func (t *c17Tree) refFan(root string, s c17FanSel) (rpm, pwm, en string, ok bool) {
	if s.Chip < 0 {
		return "", "", "", false
	}
	c := t.Chips[s.Chip]
	fans := append([]int(nil), c.Fans...)
	sort.Ints(fans)
	ch := 0
	if s.RpmChannel > 0 {
		for _, f := range fans {
			if f == s.RpmChannel {
				ch = f
			}
		}
	} else if s.Index >= 1 && s.Index <= len(fans) {
		ch = fans[s.Index-1]
	}
	if ch == 0 {
		return "", "", "", false
	}
	pc := ch
	if s.PwmChannel > 0 {
		pc = s.PwmChannel
	}
	d := filepath.Join(root, c.Dir)
	return filepath.Join(d, fmt.Sprintf("fan%d_input", ch)), filepath.Join(d, fmt.Sprintf("pwm%d", pc)), filepath.Join(d, fmt.Sprintf("pwm%d_enable", pc)), true
}

func (t *c17Tree) refSensor(root string, s c17SensorSel) (string, bool) {
	if s.Chip < 0 {
		return "", false
	}
	c := t.Chips[s.Chip]
	temps := append([]int(nil), c.Temps...)
	sort.Ints(temps)
	if s.Index < 1 || s.Index > len(temps) {
		return "", false
	}
	return filepath.Join(root, c.Dir, fmt.Sprintf("temp%d_input", temps[s.Index-1])), true
}

func (t *c17Tree) platform(chip int) string {
	if chip < 0 {
		return "nosuchchip"
	}
	return t.Chips[chip].Name
}

func runC17(ctx *Ctx, idx int) {
	r := ctx.Rng
	root := ctx.Path("c17root")
	t := genC17Tree(r)
	t.materialise(root)
	_ = os.Setenv("FAN2GO_VERIF_HWMON_ROOT", root)
	ctx.LogCase(map[string]interface{}{"class": "process-died", "tree": t})
	var controllers []*hwmon.HwMonController
	if p, msg := Guard(func() { controllers = hwmon.GetChips() }); p {
		ctx.Violation("panic-in-GetChips", msg, t)
		return
	}
	// ---- fans
	for k := 0; k < 12; k++ {
		sel := c17FanSel{Chip: r.Intn(len(t.Chips))}
		if r.Intn(10) == 0 {
			sel.Chip = -1
		}
		if r.Intn(2) == 0 {
			sel.RpmChannel = 1 + r.Intn(14)
		} else {
			sel.Index = 1 + r.Intn(14)
		}
		if r.Intn(3) == 0 {
			sel.PwmChannel = 1 + r.Intn(t.Chips[maxInt(sel.Chip, 0)].MaxCh)
		}
		id := fmt.Sprintf("fan-%d-%d", idx, k)
		cfg := configuration.FanConfig{ID: id, Curve: "c", HwMon: &configuration.HwMonFanConfig{Platform: t.platform(sel.Chip), Index: sel.Index, RpmChannel: sel.RpmChannel, PwmChannel: sel.PwmChannel}}
		var err error
		p, msg := Guard(func() { err = hwmon.UpdateFanConfigFromHwMonControllers(controllers, &cfg) })
		ctx.Eval(1)
		replay := map[string]interface{}{"tree": t, "fan": sel}
		wantRpm, wantPwm, wantEn, exists := t.refFan(root, sel)
		kind := "index"
		if sel.RpmChannel > 0 {
			kind = "rpmChannel"
		}
		if sel.PwmChannel > 0 {
			kind += "+pwmChannel"
		}
		if p {
			ctx.Violation("fan:panic:"+kind, msg, replay)
			continue
		}
		switch {
		case exists && err != nil:
			ctx.Violation("fan:existing-device-not-bound:"+kind, fmt.Sprintf("%v: %v", jsonStr(replay), err), replay)
		case exists:
			h := cfg.HwMon
			if h.RpmInputPath != wantRpm || h.PwmPath != wantPwm || h.PwmEnablePath != wantEn {
				ctx.Violation("fan:bound-to-wrong-device:"+kind, fmt.Sprintf("%s: got %s / %s / %s, want %s / %s / %s", jsonStr(replay), h.RpmInputPath, h.PwmPath, h.PwmEnablePath, wantRpm, wantPwm, wantEn), replay)
			}
			ctx.Nontrivial(fmt.Sprintf("fan|%s|chips%d|order%v|%v", kind, len(t.Chips), t.Order, sel))
		case err == nil:
			cls := "missing-" + kind
			if sel.Chip < 0 {
				cls = "unknown-platform"
			}
			ctx.Violation("fan:non-existing-device-silently-bound:"+cls, fmt.Sprintf("%s: bound to %s / %s", jsonStr(replay), cfg.HwMon.RpmInputPath, cfg.HwMon.PwmPath), replay)
		default:
			if !strings.Contains(err.Error(), id) {
				ctx.Violation("fan:error-does-not-name-the-entry", fmt.Sprintf("%s: %v", jsonStr(replay), err), replay)
			}
			ctx.Count("fan_selectors_without_device_rejected", 1)
		}
	}
	// ---- sensors (through the daemon's InitializeObjects)
	for k := 0; k < 6; k++ {
		sel := c17SensorSel{Chip: r.Intn(len(t.Chips)), Index: 1 + r.Intn(14)}
		if r.Intn(10) == 0 {
			sel.Chip = -1
		}
		id := fmt.Sprintf("sensor-%d-%d", idx, k)
		fanFile := filepath.Join(root, "filefan")
		_ = os.WriteFile(fanFile, []byte("100\n"), 0644)
		configuration.CurrentConfig = configuration.Configuration{
			Sensors: []configuration.SensorConfig{{ID: id, HwMon: &configuration.HwMonSensorConfig{Platform: t.platform(sel.Chip), Index: sel.Index}}},
			Curves:  []configuration.CurveConfig{{ID: id + "-curve", Linear: &configuration.LinearCurveConfig{Sensor: id, Min: 40, Max: 80}}},
			Fans:    []configuration.FanConfig{{ID: id + "-fan", Curve: id + "-curve", File: &configuration.FileFanConfig{Path: fanFile}}},
		}
		reg := prometheus.NewRegistry()
		prometheus.DefaultRegisterer, prometheus.DefaultGatherer = reg, reg
		var err error
		p, msg := Guard(func() { _, err = internal.InitializeObjects() })
		ctx.Eval(1)
		replay := map[string]interface{}{"tree": t, "sensor": sel}
		want, exists := t.refSensor(root, sel)
		cls := "missing-index"
		if sel.Chip < 0 {
			cls = "unknown-platform"
		}
		if p {
			ctx.Violation("sensor:panic:"+cls, firstLines(msg, 6), replay)
			continue
		}
		switch {
		case exists && err != nil:
			ctx.Violation("sensor:existing-device-not-bound", fmt.Sprintf("%s: %v", jsonStr(replay), err), replay)
		case exists:
			s, _ := sensors.GetSensor(id)
			hs, ok := s.(*sensors.HwmonSensor)
			if !ok || hs.Input != want {
				got := "<none>"
				if ok {
					got = hs.Input
				}
				ctx.Violation("sensor:bound-to-wrong-device", fmt.Sprintf("%s: got %s want %s", jsonStr(replay), got, want), replay)
			}
			ctx.Nontrivial(fmt.Sprintf("sensor|chips%d|order%v|%v", len(t.Chips), t.Order, sel))
		case err == nil:
			ctx.Violation("sensor:non-existing-device-silently-bound:"+cls, jsonStr(replay), replay)
		default:
			if !strings.Contains(err.Error(), id) {
				ctx.Violation("sensor:error-does-not-name-the-entry", fmt.Sprintf("%s: %v", jsonStr(replay), err), replay)
			}
			ctx.Count("sensor_selectors_without_device_rejected", 1)
		}
	}
	// ---- several hwmon sensor entries in one configuration: every entry is resolved on its own
	for k := 0; k < 3; k++ {
		n := 2 + r.Intn(2)
		var sels []c17SensorSel
		cfg := configuration.Configuration{}
		fanFile := filepath.Join(root, "filefan")
		_ = os.WriteFile(fanFile, []byte("100\n"), 0644)
		for j := 0; j < n; j++ {
			sel := c17SensorSel{Chip: r.Intn(len(t.Chips)), Index: 1 + r.Intn(14)}
			if j > 0 && r.Intn(3) == 0 {
				sel.Chip = -1 // unknown platform after entries that did bind
			}
			if j == 0 && len(t.Chips[sel.Chip].Temps) > 0 {
				sel.Index = 1 + r.Intn(len(t.Chips[sel.Chip].Temps)) // the first entry usually exists
			}
			sels = append(sels, sel)
			id := fmt.Sprintf("msensor-%d-%d-%d", idx, k, j)
			cfg.Sensors = append(cfg.Sensors, configuration.SensorConfig{ID: id, HwMon: &configuration.HwMonSensorConfig{Platform: t.platform(sel.Chip), Index: sel.Index}})
		}
		first := cfg.Sensors[0].ID
		cfg.Curves = []configuration.CurveConfig{{ID: first + "-curve", Linear: &configuration.LinearCurveConfig{Sensor: first, Min: 40, Max: 80}}}
		cfg.Fans = []configuration.FanConfig{{ID: first + "-fan", Curve: first + "-curve", File: &configuration.FileFanConfig{Path: fanFile}}}
		configuration.CurrentConfig = cfg
		reg := prometheus.NewRegistry()
		prometheus.DefaultRegisterer, prometheus.DefaultGatherer = reg, reg
		var err error
		p, msg := Guard(func() { _, err = internal.InitializeObjects() })
		ctx.Eval(1)
		replay := map[string]interface{}{"tree": t, "sensors": sels}
		if p {
			ctx.Violation("sensors:panic:several-entries", firstLines(msg, 6), replay)
			continue
		}
		// the first entry that cannot be resolved must make start-up fail, naming that entry
		firstBad := -1
		for j, sel := range sels {
			if _, ok := t.refSensor(root, sel); !ok {
				firstBad = j
				break
			}
		}
		if firstBad >= 0 {
			if err == nil {
				cls := "missing-index"
				if sels[firstBad].Chip < 0 {
					cls = "unknown-platform"
				}
				got := "<not registered>"
				if s, ok := sensors.GetSensor(cfg.Sensors[firstBad].ID); ok {
					if hs, ok := s.(*sensors.HwmonSensor); ok {
						got = hs.Input
					}
				}
				ctx.Violation(fmt.Sprintf("sensors:non-existing-device-silently-bound:%s:entry-%d-of-several", cls, firstBad), fmt.Sprintf("%s: start-up succeeded, entry %d bound to %s", jsonStr(replay), firstBad, got), replay)
			} else if !c17NamesABadEntry(err.Error(), cfg.Sensors, func(j int) bool { _, ok := t.refSensor(root, sels[j]); return !ok }) {
				ctx.Violation("sensors:error-does-not-name-the-entry:several-entries", fmt.Sprintf("%s: %v", jsonStr(replay), err), replay)
			}
			ctx.Count("multi_entry_configs_rejected", 1)
			continue
		}
		if err != nil {
			ctx.Violation("sensors:existing-devices-not-bound:several-entries", fmt.Sprintf("%s: %v", jsonStr(replay), err), replay)
			continue
		}
		for j, sel := range sels {
			want, _ := t.refSensor(root, sel)
			s, _ := sensors.GetSensor(cfg.Sensors[j].ID)
			hs, ok := s.(*sensors.HwmonSensor)
			if !ok || hs.Input != want {
				ctx.Violation("sensors:bound-to-wrong-device:several-entries", fmt.Sprintf("%s: entry %d want %s", jsonStr(replay), j, want), replay)
			}
		}
		ctx.Nontrivial(fmt.Sprintf("multi|chips%d|%v", len(t.Chips), sels))
	}
	// ---- whole configurations: hwmon fans and hwmon sensors together through the daemon's InitializeObjects; every
	// entry names an existing device, so start-up must succeed with every entry bound to its own device
	for k := 0; k < 3; k++ {
		cfg := configuration.Configuration{}
		var fsels []c17FanSel
		var ssels []c17SensorSel
		for tries := 0; tries < 60 && len(fsels) < 1+r.Intn(2); tries++ {
			sel := c17FanSel{Chip: r.Intn(len(t.Chips))}
			if r.Intn(2) == 0 {
				sel.RpmChannel = 1 + r.Intn(13)
			} else {
				sel.Index = 1 + r.Intn(13)
			}
			if _, _, _, ok := t.refFan(root, sel); ok {
				fsels = append(fsels, sel)
			}
		}
		for tries := 0; tries < 60 && len(ssels) < 1+r.Intn(2); tries++ {
			sel := c17SensorSel{Chip: r.Intn(len(t.Chips)), Index: 1 + r.Intn(13)}
			if _, ok := t.refSensor(root, sel); ok {
				ssels = append(ssels, sel)
			}
		}
		if len(fsels) == 0 || len(ssels) == 0 {
			continue
		}
		for j, sel := range ssels {
			cfg.Sensors = append(cfg.Sensors, configuration.SensorConfig{ID: fmt.Sprintf("wsensor-%d-%d-%d", idx, k, j), HwMon: &configuration.HwMonSensorConfig{Platform: t.platform(sel.Chip), Index: sel.Index}})
		}
		cfg.Curves = []configuration.CurveConfig{{ID: "wcurve", Linear: &configuration.LinearCurveConfig{Sensor: cfg.Sensors[0].ID, Min: 40, Max: 80}}}
		sharedIds := r.Intn(3) == 0 // a sensor and a fan may carry the same id (ids are per kind)
		for j, sel := range fsels {
			fid := fmt.Sprintf("wfan-%d-%d-%d", idx, k, j)
			if sharedIds && j < len(cfg.Sensors) {
				fid = cfg.Sensors[j].ID
			}
			cfg.Fans = append(cfg.Fans, configuration.FanConfig{ID: fid, Curve: "wcurve", HwMon: &configuration.HwMonFanConfig{Platform: t.platform(sel.Chip), Index: sel.Index, RpmChannel: sel.RpmChannel}})
		}
		configuration.CurrentConfig = cfg
		reg := prometheus.NewRegistry()
		prometheus.DefaultRegisterer, prometheus.DefaultGatherer = reg, reg
		var err error
		p, msg := Guard(func() { _, err = internal.InitializeObjects() })
		ctx.Eval(1)
		replay := map[string]interface{}{"tree": t, "fans": fsels, "sensors": ssels}
		if p {
			ctx.Violation("whole-config:panic", firstLines(msg, 6), replay)
			continue
		}
		if err != nil {
			ctx.Violation("whole-config:existing-devices-not-bound", fmt.Sprintf("%s: %v", jsonStr(replay), err), replay)
			continue
		}
		for j, sel := range fsels {
			wantRpm, wantPwm, wantEn, _ := t.refFan(root, sel)
			f, _ := fans.GetFan(cfg.Fans[j].ID)
			hf, ok := f.(*fans.HwMonFan)
			if !ok || hf.Config.HwMon.RpmInputPath != wantRpm || hf.Config.HwMon.PwmPath != wantPwm || hf.Config.HwMon.PwmEnablePath != wantEn {
				got := "<not registered>"
				if ok {
					got = hf.Config.HwMon.RpmInputPath + " / " + hf.Config.HwMon.PwmPath
				}
				ctx.Violation("whole-config:fan-bound-to-wrong-device", fmt.Sprintf("%s: fan %d got %s, want %s / %s", jsonStr(replay), j, got, wantRpm, wantPwm), replay)
			}
		}
		for j, sel := range ssels {
			want, _ := t.refSensor(root, sel)
			sn, _ := sensors.GetSensor(cfg.Sensors[j].ID)
			hs, ok := sn.(*sensors.HwmonSensor)
			if !ok || hs.Input != want {
				ctx.Violation("whole-config:sensor-bound-to-wrong-device", fmt.Sprintf("%s: sensor %d want %s", jsonStr(replay), j, want), replay)
			}
		}
		fanOnly := 0
		for _, c := range t.Chips {
			if len(c.Temps) == 0 {
				fanOnly++
			}
		}
		ctx.Nontrivial(fmt.Sprintf("whole|chips%d|chipsWithoutTemps%d|order%v|%v|%v", len(t.Chips), fanOnly, t.Order, fsels, ssels))
	}
	// ---- whole configurations in which exactly one hwmon fan entry names no device, at every position among entries
	// that can be created (hwmon fans that exist, a file fan): start-up must fail with an error naming that entry,
	// whatever comes before or after it
	for k := 0; k < 2; k++ {
		var good []c17FanSel
		for tries := 0; tries < 60 && len(good) < 2; tries++ {
			sel := c17FanSel{Chip: r.Intn(len(t.Chips))}
			if r.Intn(2) == 0 {
				sel.RpmChannel = 1 + r.Intn(13)
			} else {
				sel.Index = 1 + r.Intn(13)
			}
			if _, _, _, ok := t.refFan(root, sel); ok {
				good = append(good, sel)
			}
		}
		bad := c17FanSel{Chip: -1, Index: 1}
		badCls := "unknown-platform"
		for tries := 0; tries < 60 && r.Intn(4) > 0; tries++ {
			sel := c17FanSel{Chip: r.Intn(len(t.Chips))}
			cls := "missing-index"
			if r.Intn(2) == 0 {
				sel.RpmChannel = 1 + r.Intn(14)
				cls = "missing-rpmChannel"
			} else {
				sel.Index = 1 + r.Intn(14)
			}
			if _, _, _, ok := t.refFan(root, sel); !ok {
				bad, badCls = sel, cls
				break
			}
		}
		sensorFile := filepath.Join(root, "filesensor")
		_ = os.WriteFile(sensorFile, []byte("40000\n"), 0644)
		fanFile := filepath.Join(root, "filefan2")
		_ = os.WriteFile(fanFile, []byte("100\n"), 0644)
		cfg := configuration.Configuration{
			Sensors: []configuration.SensorConfig{{ID: "msensor", File: &configuration.FileSensorConfig{Path: sensorFile}}},
			Curves:  []configuration.CurveConfig{{ID: "mcurve", Linear: &configuration.LinearCurveConfig{Sensor: "msensor", Min: 40, Max: 80}}},
		}
		for j, sel := range good {
			cfg.Fans = append(cfg.Fans, configuration.FanConfig{ID: fmt.Sprintf("mfan-%d-%d-%d", idx, k, j), Curve: "mcurve", HwMon: &configuration.HwMonFanConfig{Platform: t.platform(sel.Chip), Index: sel.Index, RpmChannel: sel.RpmChannel}})
		}
		cfg.Fans = append(cfg.Fans, configuration.FanConfig{ID: fmt.Sprintf("mfilefan-%d-%d", idx, k), Curve: "mcurve", File: &configuration.FileFanConfig{Path: fanFile}})
		badId := fmt.Sprintf("mbadfan-%d-%d", idx, k)
		pos := r.Intn(len(cfg.Fans) + 1)
		badEntry := configuration.FanConfig{ID: badId, Curve: "mcurve", HwMon: &configuration.HwMonFanConfig{Platform: t.platform(bad.Chip), Index: bad.Index, RpmChannel: bad.RpmChannel}}
		cfg.Fans = append(cfg.Fans[:pos], append([]configuration.FanConfig{badEntry}, cfg.Fans[pos:]...)...)
		where := "last"
		if pos < len(cfg.Fans)-1 {
			where = "followed-by-creatable-entries"
		}
		configuration.CurrentConfig = cfg
		reg := prometheus.NewRegistry()
		prometheus.DefaultRegisterer, prometheus.DefaultGatherer = reg, reg
		var err error
		p, msg := Guard(func() { _, err = internal.InitializeObjects() })
		ctx.Eval(1)
		replay := map[string]interface{}{"tree": t, "fans": good, "bad": bad, "position": pos, "entries": len(cfg.Fans)}
		switch {
		case p:
			ctx.Violation("fans:panic:several-entries", firstLines(msg, 6), replay)
		case err == nil:
			ctx.Violation("fans:non-existing-device-silently-accepted:"+badCls+":"+where, fmt.Sprintf("%s: start-up succeeded", jsonStr(replay)), replay)
		case !strings.Contains(err.Error(), badId):
			ctx.Violation("fans:error-does-not-name-the-entry:several-entries", fmt.Sprintf("%s: %v", jsonStr(replay), err), replay)
		default:
			ctx.Count("fan_entries_without_device_rejected_among_others", 1)
			ctx.Nontrivial(fmt.Sprintf("badfan|%s|pos%d/%d|chips%d|%v", badCls, pos, len(cfg.Fans), len(t.Chips), bad))
		}
	}
	if idx < 2 {
		ctx.Sample(map[string]interface{}{"tree": t})
	}
}

func init() {
	register("C17", func(ctx *Ctx) {
		n := ctx.N(3000, 40000)
		for i := 0; i < n; i++ {
			runC17(ctx, i)
		}
	})
}

// c17NamesABadEntry: the error names at least one of the entries that cannot be resolved (which one is the
// implementation's choice when several are wrong).
func c17NamesABadEntry(msg string, entries []configuration.SensorConfig, bad func(int) bool) bool {
	for j, e := range entries {
		if bad(j) && strings.Contains(msg, e.ID) {
			return true
		}
	}
	return false
}

func maxInt(a, b int) int {
	if a > b {
		return a
	}
	return b
}
