package main

import (
	"encoding/json"
	"errors"
	"fmt"
	"math"
	"math/rand"
	"os"
	"path/filepath"
	"strconv"
	"strings"

	"github.com/markusressel/fan2go/internal/util"

	"github.com/markusressel/fan2go/internal/configuration"
	"github.com/markusressel/fan2go/internal/control_loop"
	"github.com/markusressel/fan2go/internal/controller"
	"github.com/markusressel/fan2go/internal/fans"
)

// C10 — a stalled never-stop fan is noticed and pushed within a bounded time.
//
// Liveness restated as bounded progress in RPM polls (logical steps, no clock):
// with a plant that reports 0 RPM below a threshold, window n and an unchanged
// request, the request must rise within B(n) = 25*n + 25 polls of the first 0
// reading, and again within B(n) polls after every raise while the fan still
// reports 0 RPM, until the fan reports rotation or the request is at the fan's
// maximum, where the next evaluations must end with ErrFanStalledAtMaxPwm.

type c10Case struct {
	Sc         *Scenario `json:"scenario"`
	PollsPerCy int       `json:"pollsPerCycle"` // >0: polls before each cycle; <0: cycles per poll
	Curve      int       `json:"curve"`
	// CoarseReadback N > 1: the device keeps (and reports) the written duty rounded down to a multiple of N while
	// fan2go's PWM map is the identity (a map measured on other hardware / an inexact configured map)
	CoarseReadback int `json:"coarseReadback,omitempty"`
}

func c10Bound(n int) int { return 25*n + 25 }

func genC10(r *rand.Rand, kind string) *c10Case {
	mn, mx := genLimits(r)
	if mx-mn < 2 {
		mn, mx = 20, 120
	}
	if mx-mn > 60 && kind != "cmd" {
		// keep the climb to the maximum affordable
		mx = mn + 10 + r.Intn(50)
	}
	kind, home := homeKind(r, kind)
	fan := FanSpec{Kind: kind, HomePath: home, ViaLoader: kind != "sim" && r.Intn(4) == 0, NeverStop: true, HasRpm: true, HasEnable: r.Intn(2) == 0, HasPwm: true, SimMin: mn, SimMax: mx}
	fan.CmdOneTool = kind == "cmd" && r.Intn(2) == 0
	if kind == "hwmon" {
		if part := r.Intn(5); part < 2 {
			fan.CfgMin, fan.CfgMax = iptr(mn), iptr(mx)
			fan.ExpMax = iptr(mx)
		} else if part == 2 {
			// only the maximum is configured; the minimum and a higher maximum come from the measurement
			data := map[int]float64{}
			for p := 0; p <= 255; p++ {
				if p >= mn {
					data[p] = 500 + float64(p-mn)*10
				} else {
					data[p] = 0
				}
			}
			fan.Measured = data
			fan.CfgMax = iptr(mx)
			fan.ExpMax = iptr(mx)
		} else {
			data := map[int]float64{}
			for p := 0; p <= 255; p++ {
				switch {
				case p < mn:
					data[p] = 0
				case p >= mx:
					data[p] = 3000
				default:
					data[p] = 500 + float64(p-mn)*2000/float64(mx-mn+1)
				}
			}
			fan.Measured = data
		}
	} else if kind != "sim" {
		mn, mx = 0, 255
	}
	sc := &Scenario{Fan: fan, Map: MapSpec{Kind: "identity"}, Loop: LoopSpec{Kind: "direct"}}
	if kind != "cmd" && r.Intn(3) == 0 {
		// sparse user maps and quantising fans: the request moves in steps of 1, the fan only at supported inputs
		sc.Map = pick(r, MapSpec{Kind: "readme"}, MapSpec{Kind: "hundred"}, MapSpec{Kind: "quant", Levels: 2 + r.Intn(15)}, genMap(r, kind == "hwmon" || kind == "file"))
	}
	if r.Intn(4) == 0 {
		sc.Loop = LoopSpec{Kind: "ratelimit", M: 1 + r.Intn(30)}
	}
	sc.Window = pick(r, 1, 2, 3, 5, 10, 20, 50)
	theta := pick(r, mn+1, (mn+mx)/2, mx, 256)
	if kind == "file" || kind == "cmd" {
		theta = pick(r, 3, 12, 256)
		if kind == "cmd" {
			theta = pick(r, 3, 6)
		}
	}
	sc.Plant = PlantSpec{Kind: "threshold", Theta: theta, MaxRpm: 2000}
	sc.PriorRpm = pick(r, 0.0, 1, 300, 1500, 10000)
	sc.InitPwm = mn
	sc.InitMode = 2
	c := &c10Case{Sc: sc, PollsPerCy: pick(r, 1, 1, 5, -5), Curve: 0}
	if (kind == "hwmon" || kind == "file") && sc.Map.Kind == "identity" && r.Intn(4) == 0 {
		c.CoarseReadback = pick(r, 2, 4, 8, 10)
	}
	if kind != "file" && kind != "cmd" && r.Intn(3) == 0 && theta <= 255 {
		// a curve value that still lands below the threshold
		c.Curve = r.Intn(40)
	}
	return c
}

func checkC10(ctx *Ctx, c *c10Case) {
	sc := c.Sc
	w := buildWorld(ctx, sc)
	defer func() {
		driver.Hook = nil
		if w.cmdDir != "" {
			_ = os.RemoveAll(w.cmdDir)
		}
		if w.VFan != nil {
			delete(driver.Mem, w.VFan.PwmPath)
			delete(driver.Mem, w.VFan.EnablePath)
			delete(driver.Plants, w.VFan.RpmPath)
			_ = os.RemoveAll(w.VFan.Dir)
		}
	}()
	n := sc.Window
	B := c10Bound(n)
	class := sc.Fan.Label()
	if c.CoarseReadback > 1 && w.VFan != nil {
		class += "-coarse-readback"
		step, path := c.CoarseReadback, w.VFan.PwmPath
		driver.Hook = func(ev *util.VerifEvent) {
			if ev.Op == "w" && ev.Path == path && ev.Err == "" && ev.Action == "" {
				driver.Mem[path] = strconv.Itoa(ev.Val / step * step)
			}
		}
	}
	wclass := "window=1"
	if n >= 2 {
		wclass = "window>=2"
	}
	// the float-underflow horizon of the unrepaired exponential average (only used to tell
	// "reacts absurdly late" from "never reacts")
	U := int(float64(n)*(math.Log(math.Max(sc.PriorRpm, 1))+760)) + 50
	w.Curve.Val = c.Curve
	maxPwm := w.Fan.GetMaxPwm()
	if sc.Fan.ExpMax != nil && maxPwm != *sc.Fan.ExpMax {
		ctx.Violation("fan-maximum-not-the-configured-one:"+class, fmt.Sprintf("%s: the stalled fan would be pushed up to %d, the configured maximum is %d", describe(sc), maxPwm, *sc.Fan.ExpMax), c)
		return
	}
	pollsSinceZeroOrRaise := -1 // -1: fan not (yet) seen stalled at an unchanged request
	lastReq, haveReq := 0, false
	raises := 0
	totalPolls := 0
	lateReported := false
	poll := func() int {
		w.Ctrl.VerifMeasureRpm()
		totalPolls++
		rpm := w.trueRpm() // the device's own behaviour, not fan2go's view of it
		return rpm
	}
	limitPolls := 40 * B
	if U*3 > limitPolls {
		limitPolls = U * 3
	}
	for totalPolls < limitPolls {
		// polls and cycles in the configured ratio
		cycles := 1
		polls := c.PollsPerCy
		if polls < 0 {
			cycles, polls = -polls, 1
		}
		for p := 0; p < polls; p++ {
			rpm := poll()
			if rpm == 0 && haveReq {
				if pollsSinceZeroOrRaise < 0 {
					pollsSinceZeroOrRaise = 0
				}
				pollsSinceZeroOrRaise++
			} else if rpm > 0 {
				pollsSinceZeroOrRaise = -1
			}
		}
		for k := 0; k < cycles; k++ {
			advanceMs(200)
			before := w.Ctrl.GetStatistics().IncreasedMinPwmCount
			var err error
			panicked, msg := Guard(func() { err = w.Ctrl.UpdateFanSpeed() })
			ctx.Eval(1)
			if panicked {
				ctx.Violation("panic-in-cycle:"+class, msg, c)
				return
			}
			if err != nil {
				if errors.Is(err, controller.ErrFanStalledAtMaxPwm) {
					if !haveReq || lastReq < maxPwm {
						ctx.Violation("stall-error-below-maximum:"+class, fmt.Sprintf("error at request %d, maximum %d", lastReq, maxPwm), c)
					}
					ctx.Count("stalled_at_max_reported", 1)
					ctx.Nontrivial(fmt.Sprintf("%s|w%d|theta%d|prior%v|ratio%d|%s|%s|raises%d|stalled-at-max", class, n, sc.Plant.Theta, sc.PriorRpm, c.PollsPerCy, sc.Loop.Kind, sc.Map.Kind, raises))
					return
				}
				ctx.Violation("unexpected-error:"+class, err.Error(), c)
				return
			}
			req, _ := w.Ctrl.VerifLastSetPwm()
			raised := w.Ctrl.GetStatistics().IncreasedMinPwmCount > before
			if raised {
				raises++
				ctx.Count("raises", 1)
				if pollsSinceZeroOrRaise > B && !lateReported {
					lateReported = true
					ctx.Violation(fmt.Sprintf("stall-reaction-slower-than-B(n):%s:%s", class, wclass),
						fmt.Sprintf("window %d: raise no. %d came %d polls after the fan stalled / the previous raise (bound %d); prior RPM average %v, threshold %d", n, raises, pollsSinceZeroOrRaise, B, sc.PriorRpm, sc.Plant.Theta), c)
				}
				ctx.Max("max_polls_until_raise", int64(pollsSinceZeroOrRaise))
				pollsSinceZeroOrRaise = 0
				if lateReported && raises >= 2 {
					// the late class is established (and the fan does react eventually); do not spend hours of virtual polls on it
					return
				}
			} else if haveReq && req != lastReq {
				// the request moved for another reason (rate limit still approaching): the clock restarts
				if pollsSinceZeroOrRaise > 0 {
					pollsSinceZeroOrRaise = 0
				}
			}
			lastReq, haveReq = req, true
		}
		rpmNow := w.trueRpm()
		if rpmNow > 0 && raises > 0 {
			// the fan reports rotation again: done
			ctx.Nontrivial(fmt.Sprintf("%s|w%d|theta%d|prior%v|ratio%d|%s|%s|raises%d|spins", class, n, sc.Plant.Theta, sc.PriorRpm, c.PollsPerCy, sc.Loop.Kind, sc.Map.Kind, raises))
			return
		}
		if rpmNow > 0 && raises == 0 && totalPolls > 3*B {
			return // never stalled at this operating point: trivial case
		}
		if pollsSinceZeroOrRaise > U+B {
			ctx.Violation(fmt.Sprintf("never-reacts-to-stall:%s:%s", class, wclass),
				fmt.Sprintf("window %d: fan reports 0 RPM at unchanged request %d for %d polls without a raise (bound %d, even the float-underflow horizon %d passed); %d raises so far", n, lastReq, pollsSinceZeroOrRaise, B, U, raises), c)
			return
		}
		if pollsSinceZeroOrRaise > B && !lateReported && pollsSinceZeroOrRaise%1000 == 0 {
			// keep going to find out whether it ever reacts
			continue
		}
	}
	if pollsSinceZeroOrRaise > B {
		ctx.Violation(fmt.Sprintf("never-reacts-to-stall:%s:%s", class, wclass), fmt.Sprintf("window %d: no raise within %d polls", n, pollsSinceZeroOrRaise), c)
	}
}

func advanceMs(ms int64) { vclockAdvance(ms) }

// c10RealFileTach: a file fan on real files whose tachometer file is maintained by another program the way such
// programs write files - a new file renamed over the old one (also: deleted and created again, or rewritten in place).
// The fan spins at first, then stalls (0 RPM below a threshold that lies above the current request). fan2go must see
// the 0 the file now holds and push the fan, poll for poll as in the daemon.
func c10RealFileTach(ctx *Ctx, r *rand.Rand) {
	installClock()
	dir := ctx.Path(uniqueId("c10real"))
	_ = os.MkdirAll(dir, 0755)
	defer os.RemoveAll(dir)
	pwmPath, rpmPath := filepath.Join(dir, "pwm"), filepath.Join(dir, "rpm")
	how := pick(r, "rename", "rename", "recreate", "in-place")
	writeRpm := func(v int) {
		data := []byte(strconv.Itoa(v) + "\n")
		switch how {
		case "rename":
			_ = os.WriteFile(rpmPath+".new", data, 0644)
			_ = os.Rename(rpmPath+".new", rpmPath)
		case "recreate":
			_ = os.Remove(rpmPath)
			_ = os.WriteFile(rpmPath, data, 0644)
		default:
			_ = os.WriteFile(rpmPath, data, 0644)
		}
	}
	_ = os.WriteFile(pwmPath, []byte("60\n"), 0644)
	_ = os.WriteFile(rpmPath, []byte("1200\n"), 0644)
	n := pick(r, 1, 2, 5, 10)
	configuration.CurrentConfig.RpmRollingWindowSize = n
	curve := newScriptCurve()
	curve.Val = 60
	fan, err := fans.NewFan(configuration.FanConfig{ID: uniqueId("c10realfan"), Curve: curve.Id, NeverStop: true, File: &configuration.FileFanConfig{Path: pwmPath, RpmPath: rpmPath}})
	if err != nil {
		ctx.Inconclusive("real file tach: " + err.Error())
		return
	}
	ctrl := newController(fan, control_loop.NewDirectControlLoop(nil), newMemPersistence(), identityMap())
	theta := 0 // the fan spins at every PWM for now
	devPwm := func() int {
		b, _ := os.ReadFile(pwmPath)
		v, _ := strconv.Atoi(strings.TrimSpace(string(b)))
		return v
	}
	plant := func() int {
		if devPwm() < theta {
			return 0
		}
		return 1200
	}
	desc := map[string]interface{}{"scenario": "file fan on real files, tachometer file maintained by " + how, "window": n}
	B := c10Bound(n)
	step := func() (raised bool, err error) {
		writeRpm(plant())
		ctrl.VerifMeasureRpm()
		advanceMs(200)
		before := ctrl.GetStatistics().IncreasedMinPwmCount
		err = ctrl.UpdateFanSpeed()
		return ctrl.GetStatistics().IncreasedMinPwmCount > before, err
	}
	for i := 0; i < 8; i++ { // healthy phase: fan2go polls the tachometer a few times
		if _, err := step(); err != nil {
			ctx.Violation("real-file-tach:error-while-the-fan-spins:"+how, err.Error(), desc)
			return
		}
	}
	theta = devPwm() + 4 + r.Intn(12) // the rotor blocks: it only turns again a few steps higher
	since := 0
	for polls := 0; polls < 40*B; polls++ {
		raised, err := step()
		ctx.Eval(1)
		if err != nil {
			ctx.Violation("real-file-tach:unexpected-error:"+how, err.Error(), desc)
			return
		}
		since++
		if raised {
			since = 0
		}
		if plant() > 0 {
			ctx.Nontrivial(fmt.Sprintf("real-file-tach|%s|w%d", how, n))
			return
		}
		if since > B {
			ctx.Violation(fmt.Sprintf("never-reacts-to-stall:file-real-tach-%s:window=%d", how, n), fmt.Sprintf("%s: the tachometer file has held 0 for %d polls at an unchanged request %d (bound %d); fan2go's RPM average says %.1f", jsonStr(desc), since, devPwm(), B, fan.GetRpmAvg()), desc)
			return
		}
	}
	ctx.Violation("never-reacts-to-stall:file-real-tach-"+how, fmt.Sprintf("%s: fan still stalled after %d polls", jsonStr(desc), 40*B), desc)
}

func init() {
	register("C10", func(ctx *Ctx) {
		if ctx.Replay != "" {
			var c c10Case
			b, err := os.ReadFile(ctx.Replay)
			if err == nil {
				err = json.Unmarshal(b, &c)
			}
			if err != nil {
				ctx.Inconclusive("cannot read replay: " + err.Error())
				return
			}
			checkC10(ctx, &c)
			ctx.Nontrivial("replay-a")
			ctx.Nontrivial("replay-b")
			return
		}
		n := ctx.N(4000, 60000)
		for i := 0; i < n; i++ {
			c := genC10(ctx.Rng, pick(ctx.Rng, "hwmon", "hwmon", "hwmon", "file", "sim"))
			if i < 3 {
				ctx.Sample(map[string]interface{}{"fan": c.Sc.Fan.Kind, "window": c.Sc.Window, "priorRpm": c.Sc.PriorRpm, "theta": c.Sc.Plant.Theta, "pollsPerCycle": c.PollsPerCy, "curve": c.Curve, "loop": c.Sc.Loop})
			}
			checkC10(ctx, c)
		}
		nc := ctx.N(16, 200)
		for i := 0; i < nc; i++ {
			checkC10(ctx, genC10(ctx.Rng, "cmd"))
		}
		for i, nf := 0, ctx.N(8, 80); i < nf; i++ {
			c10RealFileTach(ctx, ctx.Rng)
		}
	})
}
