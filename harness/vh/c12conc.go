package main

import (
	"fmt"
	"os"
	"path/filepath"
	"strconv"
	"strings"
	"sync"

	"github.com/markusressel/fan2go/internal/configuration"
	"github.com/markusressel/fan2go/internal/control_loop"
	"github.com/markusressel/fan2go/internal/fans"
)

// c12Concurrent: a cmd fan whose getPwm command samples the value and then takes a while to answer (ipmitool-like),
// polled by the RPM monitor from its own goroutine as in the daemon, while control cycles follow each other without a
// pause and move the request back and forth between a few values. After every cycle that returned without error the
// device holds the map's output for the supported input nearest to the request - whatever query of the monitor was in
// flight when the cycle's own read-back and write happened.
func c12Concurrent(ctx *Ctx) {
	r := ctx.Rng
	dir := ctx.Path("c12conc")
	_ = os.MkdirAll(dir, 0755)
	defer os.RemoveAll(dir)
	ctx.LogCase(map[string]interface{}{"class": "concurrent-rpm-monitor:process-died"})
	pwmFile := filepath.Join(dir, "pwm")
	_ = os.WriteFile(pwmFile, []byte("100\n"), 0644)
	cmdScript(filepath.Join(dir, "set.sh"), "echo \"$1\" > "+pwmFile+".tmp && mv "+pwmFile+".tmp "+pwmFile)
	cmdScript(filepath.Join(dir, "get.sh"), "v=$(cat "+pwmFile+"); sleep 0.12; echo $v")
	cmdScript(filepath.Join(dir, "rpm.sh"), "echo 1200")
	curve := newScriptCurve()
	fan, err := fans.NewFan(configuration.FanConfig{ID: uniqueId("c12cfan"), Curve: curve.Id, Cmd: &configuration.CmdFanConfig{
		SetPwm: &configuration.ExecConfig{Exec: filepath.Join(dir, "set.sh"), Args: []string{"%pwm%"}},
		GetPwm: &configuration.ExecConfig{Exec: filepath.Join(dir, "get.sh")},
		GetRpm: &configuration.ExecConfig{Exec: filepath.Join(dir, "rpm.sh")}}})
	if err != nil {
		ctx.Inconclusive("concurrent rpm monitor: " + err.Error())
		return
	}
	pwmMap := pick(r, map[int]int{0: 0, 100: 100, 200: 200}, map[int]int{0: 0, 64: 25, 128: 50, 192: 75, 255: 100}, identityMap())
	supp := refSupported(pwmMap)
	ctrl := newController(fan, control_loop.NewDirectControlLoop(nil), newMemPersistence(), pwmMap)
	stop := make(chan struct{})
	var wg sync.WaitGroup
	wg.Add(1)
	go func() {
		defer wg.Done()
		for {
			select {
			case <-stop:
				return
			default:
				ctrl.VerifMeasureRpm()
			}
		}
	}()
	defer func() { close(stop); wg.Wait() }()
	read := func() int {
		b, _ := os.ReadFile(pwmFile)
		n, _ := strconv.Atoi(strings.TrimSpace(string(b)))
		return n
	}
	// back and forth between two supported inputs (and values near them), then a few others
	a, b := supp[r.Intn(len(supp))], supp[r.Intn(len(supp))]
	for b == a {
		b = supp[r.Intn(len(supp))]
	}
	var targets []int
	for k := 0; k < 10; k++ {
		targets = append(targets, a, b)
	}
	for k := 0; k < 6; k++ {
		targets = append(targets, pick(r, a, b, r.Intn(256), supp[r.Intn(len(supp))]))
	}
	moved := 0
	for k, t := range targets {
		curve.Val = t
		if err := ctrl.UpdateFanSpeed(); err != nil {
			ctx.Count("concurrent_cycles_with_a_reported_error", 1) // (a command ran into fan2go's time limits on a loaded machine)
			continue
		}
		ctx.Eval(1)
		req, _ := ctrl.VerifLastSetPwm()
		allowed := map[int]bool{}
		for _, key := range refNearest(supp, req) {
			allowed[pwmMap[key]] = true
		}
		if got := read(); !allowed[got] {
			ctx.Violation("real-backend:device-not-at-nearest-supported-value:cmd-polled-concurrently", fmt.Sprintf("cycle %d of requests %v: request %d, the fan holds %d, allowed %v (map %v; slow getPwm command, RPM monitor polling from its own goroutine)", k, targets, req, got, allowed, pwmMap), nil)
			return
		}
		moved++
	}
	ctx.Count("cycles_with_a_concurrently_polling_rpm_monitor", int64(moved))
	if moved > 10 {
		ctx.Nontrivial(fmt.Sprintf("real-backend|cmd-polled-concurrently|%d|%d|%d", len(supp), a, b))
	}
}
