package main

import (
	"syscall"

	"golang.org/x/sys/unix"
)

func clockGettimeMonotonic(ts *syscall.Timespec) error {
	var u unix.Timespec
	err := unix.ClockGettime(unix.CLOCK_MONOTONIC, &u)
	ts.Sec, ts.Nsec = u.Sec, u.Nsec
	return err
}
