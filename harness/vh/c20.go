package main

import (
	"context"
	"fmt"
	"net/http"
	"net/http/httptest"
	"os"
	"path/filepath"
	"sync"
	"sync/atomic"
	"time"

	"github.com/markusressel/fan2go/internal"
	"github.com/markusressel/fan2go/internal/api"
	"github.com/markusressel/fan2go/internal/configuration"
	"github.com/markusressel/fan2go/internal/control_loop"
	"github.com/markusressel/fan2go/internal/controller"
	"github.com/markusressel/fan2go/internal/curves"
	"github.com/markusressel/fan2go/internal/fans"
	"github.com/markusressel/fan2go/internal/sensors"
	"github.com/markusressel/fan2go/internal/statistics"
	"github.com/markusressel/fan2go/internal/util"
	"github.com/prometheus/client_golang/prometheus"
)

// C20 (in-process layer) — built with -race by the orchestrator. The daemon's concurrent activities
// are wired up on plain files (the virtual driver and its lock stay out of the I/O path: every lock
// a monitor takes there would add happens-before edges between exactly the goroutines under test):
// controller.Run for several fans sharing curves and sensors, sensor monitors, REST handlers,
// Prometheus collectors. Races are reported by the detector into the GORACE log, which the
// orchestrator parses; this program only reports how much activity there was.

func init() {
	register("C20", func(ctx *Ctx) {
		util.VerifDriver = nil
		controller.VerifTimescale = 50
		dir := ctx.Path("c20")
		_ = os.MkdirAll(dir, 0755)
		w := func(name, v string) string {
			p := filepath.Join(dir, name)
			_ = os.WriteFile(p, []byte(v+"\n"), 0644)
			return p
		}
		configuration.CurrentConfig.RpmPollingRate = 1 * time.Millisecond
		configuration.CurrentConfig.TempSensorPollingRate = 1 * time.Millisecond
		configuration.CurrentConfig.ControllerAdjustmentTickRate = 1 * time.Millisecond
		configuration.CurrentConfig.RpmRollingWindowSize = 2
		configuration.CurrentConfig.TempRollingWindowSize = 3
		configuration.CurrentConfig.RunFanInitializationInParallel = true
		pfx := fmt.Sprintf("b%d-", ctx.Batch)
		// sensors
		temp1 := w("temp1_input", "45000")
		tfile := w("filesensor", "50000")
		s1, _ := sensors.NewSensor(configuration.SensorConfig{ID: pfx + "cpu", HwMon: &configuration.HwMonSensorConfig{Platform: "x", Index: 1, TempInput: temp1}})
		s2, _ := sensors.NewSensor(configuration.SensorConfig{ID: pfx + "board", File: &configuration.FileSensorConfig{Path: tfile}})
		sensors.RegisterSensor(s1)
		sensors.RegisterSensor(s2)
		// curves
		lin := mkCurve(configuration.CurveConfig{ID: pfx + "lin", Linear: &configuration.LinearCurveConfig{Sensor: pfx + "cpu", Min: 30, Max: 70}})
		pid := mkCurve(configuration.CurveConfig{ID: pfx + "pidc", PID: &configuration.PidCurveConfig{Sensor: pfx + "board", SetPoint: 50, P: -0.05, I: -0.005, D: -0.005}})
		avg := mkCurve(configuration.CurveConfig{ID: pfx + "avg", Function: &configuration.FunctionCurveConfig{Type: "average", Curves: []string{pfx + "lin", pfx + "pidc"}}})
		curveList := []curves.SpeedCurve{lin, pid, avg}
		// fans
		var fanList []fans.Fan
		var ctrls []controller.FanController
		rpmFiles := []string{}
		for i := 1; i <= 3; i++ {
			pwm, en, rpm := w(fmt.Sprintf("pwm%d", i), "100"), w(fmt.Sprintf("pwm%d_enable", i), "2"), w(fmt.Sprintf("fan%d_input", i), "1200")
			rpmFiles = append(rpmFiles, rpm)
			cfg := configuration.FanConfig{ID: fmt.Sprintf("%sf%d", pfx, i), Curve: []string{pfx + "lin", pfx + "lin", pfx + "avg"}[i-1], NeverStop: i != 2,
				HwMon: &configuration.HwMonFanConfig{Platform: "x", Index: i, RpmChannel: i, PwmChannel: i, SysfsPath: dir, RpmInputPath: rpm, PwmPath: pwm, PwmEnablePath: en}}
			if i == 1 {
				cfg.MinPwm, cfg.MaxPwm = iptr(20), iptr(250)
			}
			if i == 2 {
				// a configured pwmMap: the controller uses the configuration's own map object
				m := map[int]int{0: 0, 64: 128, 192: 255}
				cfg.PwmMap = &m
			}
			f, _ := fans.NewFan(cfg)
			fanList = append(fanList, f)
		}
		fm := map[int]int{0: 0, 100: 100, 255: 255}
		ff, _ := fans.NewFan(configuration.FanConfig{ID: pfx + "f4", Curve: pfx + "pidc", PwmMap: &fm, File: &configuration.FileFanConfig{Path: w("filefan", "90"), RpmPath: w("filefan_rpm", "1000")}})
		fanList = append(fanList, ff)
		for i, f := range fanList {
			fans.RegisterFan(f)
			mp := newMemPersistence()
			data := map[int]float64{}
			for p := 0; p <= 255; p += 5 {
				data[p] = float64(p * 8)
			}
			mp.pwmData[f.GetId()] = data
			mp.pwmMaps[f.GetId()] = identityMap()
			var loop control_loop.ControlLoop = control_loop.NewDirectControlLoop(nil)
			if i == 1 {
				loop = control_loop.NewPidControlLoop(0.3, 0.02, 0.005)
			}
			ctrls = append(ctrls, controller.NewFanController(mp, f, loop, time.Millisecond))
		}
		reg := prometheus.NewRegistry()
		reg.MustRegister(statistics.NewFanCollector(fanList), statistics.NewSensorCollector([]sensors.Sensor{s1, s2}), statistics.NewCurveCollector(curveList), statistics.NewControllerCollector(ctrls))
		rest := api.CreateRestService()

		cctx, cancel := context.WithCancel(context.Background())
		var wg sync.WaitGroup
		for _, c := range ctrls {
			wg.Add(1)
			go func(c controller.FanController) { defer wg.Done(); _ = c.Run(cctx) }(c)
		}
		for _, s := range []sensors.Sensor{s1, s2} {
			wg.Add(1)
			go func(s sensors.Sensor) {
				defer wg.Done()
				_ = internal.NewSensorMonitor(s, time.Millisecond).Run(cctx)
			}(s)
		}
		var requests, scrapes int64
		paths := []string{"/fan/", "/fan/" + pfx + "f1/", "/fan/" + pfx + "f3/", "/fan/" + pfx + "f4/", "/sensor/", "/sensor/" + pfx + "cpu/", "/sensor/" + pfx + "board/", "/curve/", "/curve/" + pfx + "lin/", "/curve/" + pfx + "avg/", "/curve/" + pfx + "pidc/"}
		for t := 0; t < 6; t++ {
			wg.Add(1)
			go func(t int) {
				defer wg.Done()
				k := t
				for cctx.Err() == nil {
					req := httptest.NewRequest(http.MethodGet, paths[k%len(paths)], nil)
					k++
					rec := httptest.NewRecorder()
					rest.ServeHTTP(rec, req)
					atomic.AddInt64(&requests, 1)
				}
			}(t)
		}
		for t := 0; t < 2; t++ {
			wg.Add(1)
			go func() {
				defer wg.Done()
				for cctx.Err() == nil {
					_, _ = reg.Gather()
					atomic.AddInt64(&scrapes, 1)
				}
			}()
		}
		// the plant: temperatures move, the never-stop fans stall now and then
		wg.Add(1)
		go func() {
			defer wg.Done()
			k := 0
			for cctx.Err() == nil {
				k++
				t := 35000 + (k*900)%40000
				atomicWrite(temp1, fmt.Sprintf("%d\n", t))
				atomicWrite(tfile, fmt.Sprintf("%d\n", 85000-t))
				v := "1200\n"
				if k%50 < 4 {
					v = "0\n"
				}
				atomicWrite(rpmFiles[0], v)
				atomicWrite(rpmFiles[2], v)
				time.Sleep(2 * time.Millisecond)
			}
		}()
		dur := 5 * time.Second
		if ctx.Thorough() {
			dur = 20 * time.Second
		}
		time.Sleep(dur)
		cancel()
		done := make(chan struct{})
		go func() { wg.Wait(); close(done) }()
		select {
		case <-done:
		case <-time.After(60 * time.Second):
			ctx.Inconclusive("in-process race workload did not stop")
		}
		ctx.Eval(atomic.LoadInt64(&requests) + atomic.LoadInt64(&scrapes))
		ctx.Count("inprocess_api_requests", atomic.LoadInt64(&requests))
		ctx.Count("inprocess_metric_scrapes", atomic.LoadInt64(&scrapes))
		ctx.Nontrivial("inprocess-workload-a")
		ctx.Nontrivial("inprocess-workload-b")
		ctx.Sample(map[string]interface{}{"kind": "in-process race workload", "seconds": dur.Seconds(), "api_requests": requests, "metric_scrapes": scrapes, "fans": 4, "curves": 3, "sensors": 2})
	})
}

func atomicWrite(path, v string) {
	tmp := path + ".tmp"
	if os.WriteFile(tmp, []byte(v), 0644) == nil {
		_ = os.Rename(tmp, path)
	}
}
