package main

import (
	"github.com/spf13/viper"
	"fmt"
	"os"
	"os/exec"
	"path/filepath"
	"strconv"
	"strings"
	"syscall"
	"time"

	"github.com/markusressel/fan2go/internal/configuration"
	"github.com/markusressel/fan2go/internal/fans"
	"github.com/markusressel/fan2go/internal/sensors"
	"github.com/markusressel/fan2go/internal/util"
)

// C18 — only root-controlled executables are ever run.
//
// Exhaustive grid owner x group x 512 modes x {direct, symlink}; each file is a
// script that appends to a marker file, so "was it executed" is observed from
// the outside. Reference predicate: permitted <=> uid 0 and not (gid != 0 and
// g+w) and not o+w, evaluated on the symlink target.

func c18Permitted(uid, gid int, mode os.FileMode) bool {
	if uid != 0 {
		return false
	}
	if gid != 0 && mode&0o020 != 0 {
		return false
	}
	if mode&0o002 != 0 {
		return false
	}
	return true
}

type c18Case struct {
	Uid     int    `json:"uid"`
	Gid     int    `json:"gid"`
	Mode    uint32 `json:"mode"`
	Symlink bool   `json:"symlink"`
	Via     string `json:"via"`
}

func (c c18Case) class() string {
	return fmt.Sprintf("uid%d:gid%d:gw%v:ow%v:symlink=%v:via=%s", c.Uid, c.Gid, c.Mode&0o020 != 0, c.Mode&0o002 != 0, c.Symlink, c.Via)
}

func c18Make(dir string, name string, marker string, uid, gid int, mode os.FileMode, symlink bool) (string, error) {
	target := filepath.Join(dir, name)
	_ = os.Remove(target)
	body := "#!/bin/sh\necho run >> " + marker + "\necho 4242\n"
	if err := os.WriteFile(target, []byte(body), 0700); err != nil {
		return "", err
	}
	if err := os.Chown(target, uid, gid); err != nil {
		return "", err
	}
	if err := os.Chmod(target, mode); err != nil {
		return "", err
	}
	if st, err := os.Stat(target); err != nil || st.Mode().Perm() != mode {
		return "", fmt.Errorf("mode not applied")
	}
	if !symlink {
		return target, nil
	}
	link := target + ".lnk"
	_ = os.Remove(link)
	if err := os.Symlink(target, link); err != nil {
		return "", err
	}
	// the link itself is owned by a non-root user: only the target counts
	_ = os.Lchown(link, 1000, 1000)
	return link, nil
}

func markerCount(marker string) int { return len(readLines(marker)) }

// invoke runs the executable through the chosen fan2go entry point.
func c18Invoke(via string, path string) (out string, err error, panicMsg string) {
	_, panicMsg = Guard(func() {
		switch via {
		case "SafeCmdExecution":
			out, err = util.SafeCmdExecution(path, nil, 2*time.Second)
		case "CmdSensor":
			s, _ := sensors.NewSensor(configuration.SensorConfig{ID: "c18s", Cmd: &configuration.CmdSensorConfig{Exec: path}})
			var v float64
			v, err = s.GetValue()
			if err == nil {
				out = fmt.Sprint(int(v))
			}
		case "CmdFan.GetPwm":
			f, _ := fans.NewFan(configuration.FanConfig{ID: "c18f", Cmd: &configuration.CmdFanConfig{SetPwm: &configuration.ExecConfig{Exec: path}, GetPwm: &configuration.ExecConfig{Exec: path}}})
			var v int
			v, err = f.GetPwm()
			if err == nil {
				out = fmt.Sprint(v)
			}
		case "CmdFan.SetPwm":
			f, _ := fans.NewFan(configuration.FanConfig{ID: "c18f", Cmd: &configuration.CmdFanConfig{SetPwm: &configuration.ExecConfig{Exec: path, Args: []string{"%pwm%"}}, GetPwm: &configuration.ExecConfig{Exec: path}}})
			err = f.SetPwm(100)
			if err == nil {
				out = "4242"
			}
		case "CmdFan.GetRpm":
			f, _ := fans.NewFan(configuration.FanConfig{ID: "c18f", Cmd: &configuration.CmdFanConfig{SetPwm: &configuration.ExecConfig{Exec: path}, GetPwm: &configuration.ExecConfig{Exec: path}, GetRpm: &configuration.ExecConfig{Exec: path}}})
			var v int
			v, err = f.GetRpm()
			if err == nil {
				out = fmt.Sprint(v)
			}
		}
	})
	return
}

func c18Check(ctx *Ctx, dir string, c c18Case) {
	marker := filepath.Join(dir, "marker")
	_ = os.Remove(marker)
	ctx.LogCase(c)
	path, err := c18Make(dir, "exe", marker, c.Uid, c.Gid, os.FileMode(c.Mode), c.Symlink)
	if err != nil {
		ctx.Inconclusive(fmt.Sprintf("cannot construct case %+v: %v", c, err))
		return
	}
	ctx.Eval(1)
	out, cerr, pmsg := c18Invoke(c.Via, path)
	ran := markerCount(marker) > 0
	permitted := c18Permitted(c.Uid, c.Gid, os.FileMode(c.Mode))
	anyX := c.Mode&0o111 != 0
	switch {
	case ran && !permitted:
		ctx.Violation("executed-although-not-permitted:"+c.class(), fmt.Sprintf("%+v mode %o: executed", c, c.Mode), c)
	case !permitted && (cerr == nil || pmsg != ""):
		ctx.Violation("not-permitted-but-no-error:"+c.class(), fmt.Sprintf("%+v mode %o: err=%v panic=%q out=%q", c, c.Mode, cerr, firstLine(pmsg), out), c)
	case permitted && anyX && (!ran || cerr != nil || out != "4242"):
		ctx.Violation("permitted-but-not-executed:"+c.class(), fmt.Sprintf("%+v mode %o: ran=%v err=%v panic=%q out=%q", c, c.Mode, ran, cerr, firstLine(pmsg), out), c)
	}
	if permitted && !anyX {
		ctx.Count("permitted_without_x_bit", 1)
		if pmsg != "" {
			ctx.Count("permitted_without_x_bit_panicked(C19)", 1)
		}
	}
	if permitted {
		ctx.Count("permitted_cases", 1)
	} else {
		ctx.Count("refused_cases", 1)
	}
	ctx.Nontrivial(fmt.Sprintf("%d:%d:%o:%v:%s", c.Uid, c.Gid, c.Mode, c.Symlink, c.Via))
}

func firstLine(s string) string {
	if i := strings.IndexByte(s, '\n'); i >= 0 {
		return s[:i]
	}
	return s
}

func init() {
	register("C18", func(ctx *Ctx) {
		if ctx.Mode == "unprivileged" {
			c18UnprivilegedChild(ctx.Arg)
			return
		}
		if os.Geteuid() != 0 {
			ctx.Inconclusive("C18 needs root to construct ownership cases")
			return
		}
		dir := ctx.Path("c18")
		_ = os.MkdirAll(dir, 0755)
		switch ctx.Mode {
		case "", "grid":
			idx := 0
			for _, uid := range []int{0, 1000} {
				for _, gid := range []int{0, 1000} {
					for mode := 0; mode < 512; mode++ {
						for _, sl := range []bool{false, true} {
							idx++
							if idx%ctx.Of != ctx.Batch {
								continue
							}
							c := c18Case{Uid: uid, Gid: gid, Mode: uint32(mode), Symlink: sl, Via: "SafeCmdExecution"}
							if idx%997 == 0 {
								ctx.Sample(c)
							}
							c18Check(ctx, dir, c)
						}
					}
				}
			}
			// the cmd sensor / cmd fan entry points over a reduced mode grid
			modes := []uint32{0o755, 0o775, 0o757, 0o777, 0o700, 0o720, 0o702, 0o555, 0o575, 0o557, 0o500}
			for _, via := range []string{"CmdSensor", "CmdFan.GetPwm", "CmdFan.SetPwm", "CmdFan.GetRpm"} {
				for _, uid := range []int{0, 1000} {
					for _, gid := range []int{0, 1000} {
						for _, m := range modes {
							for _, sl := range []bool{false, true} {
								idx++
								if idx%ctx.Of != ctx.Batch {
									continue
								}
								c18Check(ctx, dir, c18Case{Uid: uid, Gid: gid, Mode: m, Symlink: sl, Via: via})
							}
						}
					}
				}
			}
			// re-check before every execution: flip between two consecutive calls, both directions
			if ctx.Batch == 0 {
				c18Flip(ctx, dir)
				c18Retarget(ctx, dir)
				c18PathShapes(ctx, dir)
				c18ConfiguredExec(ctx, dir)
				c18BusyThenChanged(ctx, dir)
				c18OverlappingCalls(ctx, dir)
				c18Unprivileged(ctx)
				c18Config(ctx, dir)
			}
		}
	})
}

func c18Flip(ctx *Ctx, dir string) {
	marker := filepath.Join(dir, "marker")
	type state struct {
		uid, gid int
		mode     os.FileMode
	}
	good := []state{{0, 0, 0o755}, {0, 1000, 0o755}, {0, 0, 0o775}}
	bad := []state{{1000, 0, 0o755}, {0, 1000, 0o775}, {0, 0, 0o757}, {1000, 1000, 0o777}}
	apply := func(p string, s state) {
		_ = os.Chown(p, s.uid, s.gid)
		_ = os.Chmod(p, s.mode)
	}
	for _, sl := range []bool{false, true} {
		for _, g := range good {
			for _, b := range bad {
				for _, goodFirst := range []bool{true, false} {
					_ = os.Remove(marker)
					first, second := g, b
					if !goodFirst {
						first, second = b, g
					}
					path, err := c18Make(dir, "flip", marker, first.uid, first.gid, first.mode, sl)
					if err != nil {
						ctx.Inconclusive("flip case: " + err.Error())
						return
					}
					target := strings.TrimSuffix(path, ".lnk")
					for step, s := range []state{first, second, first} {
						apply(target, s)
						before := markerCount(marker)
						_, cerr, pmsg := c18Invoke("SafeCmdExecution", path)
						ran := markerCount(marker) > before
						permitted := c18Permitted(s.uid, s.gid, s.mode)
						ctx.Eval(1)
						desc := fmt.Sprintf("symlink=%v step %d state %+v (sequence %+v -> %+v -> %+v)", sl, step, s, first, second, first)
						if ran != permitted {
							ctx.Violation(fmt.Sprintf("flip:stale-decision:permitted=%v:ran=%v", permitted, ran), desc, desc)
						}
						if !permitted && (cerr == nil || pmsg != "") {
							ctx.Violation("flip:not-permitted-but-no-error", desc, desc)
						}
					}
					ctx.Nontrivial(fmt.Sprintf("flip:%v:%v:%v:%v", sl, g, b, goodFirst))
				}
			}
		}
	}
}

// c18Retarget: the executable is configured through a symlink that is re-pointed between two executions
// (the old target stays in place): the check must follow the link as it is now.
func c18Retarget(ctx *Ctx, dir string) {
	marker := filepath.Join(dir, "marker-rt")
	mk := func(name string, uid, gid int, mode os.FileMode, out string) string {
		p := filepath.Join(dir, name)
		_ = os.Remove(p)
		_ = os.WriteFile(p, []byte("#!/bin/sh\necho "+name+" >> "+marker+"\necho "+out+"\n"), 0700)
		_ = os.Chown(p, uid, gid)
		_ = os.Chmod(p, mode)
		return p
	}
	good := mk("rt-good", 0, 0, 0o755, "11")
	bads := []string{mk("rt-bad-owner", 1000, 1000, 0o755, "22"), mk("rt-bad-group", 0, 1000, 0o775, "33"), mk("rt-bad-other", 0, 0, 0o757, "44")}
	link := filepath.Join(dir, "rt-link")
	point := func(target string) {
		_ = os.Remove(link)
		_ = os.Symlink(target, link)
	}
	for _, bad := range bads {
		for _, order := range [][]string{{good, bad, good}, {bad, good, bad}, {good, good, bad, bad, good}} {
			for _, via := range []string{"SafeCmdExecution", "CmdSensor", "CmdFan.GetPwm"} {
				for step, target := range order {
					point(target)
					before := readLines(marker)
					out, cerr, pmsg := c18Invoke(via, link)
					after := readLines(marker)
					ctx.Eval(1)
					ranWhat := ""
					if len(after) > len(before) {
						ranWhat = after[len(after)-1]
					}
					permitted := target == good
					desc := fmt.Sprintf("via %s: link -> %v, step %d points to %s: ran %q out %q err %v", via, baseNames(order), step, filepath.Base(target), ranWhat, out, cerr)
					switch {
					case !permitted && ranWhat != "":
						ctx.Violation("retargeted-symlink:executed-although-not-permitted", desc, desc)
					case !permitted && (cerr == nil || pmsg != ""):
						ctx.Violation("retargeted-symlink:not-permitted-but-no-error", desc, desc)
					case permitted && (ranWhat != filepath.Base(good) || cerr != nil):
						ctx.Violation("retargeted-symlink:permitted-target-not-executed", desc, desc)
					}
				}
				ctx.Nontrivial(fmt.Sprintf("retarget:%s:%v:%s", filepath.Base(bad), baseNames(order), via))
			}
		}
	}
}

func baseNames(ps []string) []string {
	var out []string
	for _, p := range ps {
		out = append(out, filepath.Base(p))
	}
	return out
}

// c18Config: the configuration file itself must pass the same test whenever it
// declares a command sensor or fan.
func c18Config(ctx *Ctx, dir string) {
	cfgPath := filepath.Join(dir, "fan2go.yaml")
	saved := configuration.CurrentConfig
	defer func() { configuration.CurrentConfig = saved }()
	exe := filepath.Join(dir, "cfgexe")
	_ = os.WriteFile(exe, []byte("#!/bin/sh\necho 1\n"), 0755)
	base := func() configuration.Configuration {
		return configuration.Configuration{
			Sensors: []configuration.SensorConfig{{ID: "s", File: &configuration.FileSensorConfig{Path: "/dev/null"}}},
			Curves:  []configuration.CurveConfig{{ID: "c", Linear: &configuration.LinearCurveConfig{Sensor: "s", Min: 40, Max: 80}}},
			Fans:    []configuration.FanConfig{{ID: "f", Curve: "c", File: &configuration.FileFanConfig{Path: "/dev/null"}}},
		}
	}
	variants := map[string]func() configuration.Configuration{
		"none": base,
		"cmd-sensor": func() configuration.Configuration {
			c := base()
			c.Sensors = append(c.Sensors, configuration.SensorConfig{ID: "cs", Cmd: &configuration.CmdSensorConfig{Exec: exe}})
			return c
		},
		"cmd-fan": func() configuration.Configuration {
			c := base()
			c.Fans = append(c.Fans, configuration.FanConfig{ID: "cf", Curve: "c", Cmd: &configuration.CmdFanConfig{
				SetPwm: &configuration.ExecConfig{Exec: exe}, GetPwm: &configuration.ExecConfig{Exec: exe}}})
			return c
		},
	}
	// the command entry is not the last one of its list / sits between two others
	cmdSensor := configuration.SensorConfig{ID: "cs", Cmd: &configuration.CmdSensorConfig{Exec: exe}}
	cmdFan := configuration.FanConfig{ID: "cf", Curve: "c", Cmd: &configuration.CmdFanConfig{SetPwm: &configuration.ExecConfig{Exec: exe}, GetPwm: &configuration.ExecConfig{Exec: exe}}}
	fileSensor := func(id string) configuration.SensorConfig {
		return configuration.SensorConfig{ID: id, File: &configuration.FileSensorConfig{Path: "/dev/null"}}
	}
	fileFan := func(id string) configuration.FanConfig {
		return configuration.FanConfig{ID: id, Curve: "c", File: &configuration.FileFanConfig{Path: "/dev/null"}}
	}
	variants["cmd-sensor-listed-first"] = func() configuration.Configuration {
		c := base()
		c.Sensors = []configuration.SensorConfig{cmdSensor, fileSensor("s")}
		return c
	}
	variants["cmd-sensor-in-the-middle"] = func() configuration.Configuration {
		c := base()
		c.Sensors = []configuration.SensorConfig{fileSensor("s"), cmdSensor, fileSensor("s2")}
		return c
	}
	variants["cmd-fan-listed-first"] = func() configuration.Configuration {
		c := base()
		c.Fans = []configuration.FanConfig{cmdFan, fileFan("f")}
		return c
	}
	variants["cmd-fan-in-the-middle"] = func() configuration.Configuration {
		c := base()
		c.Fans = []configuration.FanConfig{fileFan("f"), cmdFan, fileFan("f2")}
		return c
	}
	for name, mk := range variants {
		for _, uid := range []int{0, 1000} {
			for _, gid := range []int{0, 1000} {
				for mode := 0; mode < 512; mode++ {
					if mode&0o400 == 0 {
						continue // keep the grid at the write bits that matter plus a read bit
					}
					_ = os.Remove(cfgPath)
					_ = os.WriteFile(cfgPath, []byte("# verif\n"), 0600)
					_ = os.Chown(cfgPath, uid, gid)
					_ = os.Chmod(cfgPath, os.FileMode(mode))
					configuration.CurrentConfig = mk()
					var err error
					_, pmsg := Guard(func() { err = configuration.Validate(cfgPath) })
					ctx.Eval(1)
					permitted := c18Permitted(uid, gid, os.FileMode(mode))
					wantOK := name == "none" || permitted
					if pmsg != "" || (err == nil) != wantOK {
						ctx.Violation(fmt.Sprintf("config-file-rule:%s:uid%d:gid%d:gw%v:ow%v:accepted=%v", name, uid, gid, mode&0o020 != 0, mode&0o002 != 0, err == nil),
							fmt.Sprintf("config %s uid %d gid %d mode %o: err=%v panic=%q", name, uid, gid, mode, err, firstLine(pmsg)), nil)
					}
					ctx.Nontrivial(fmt.Sprintf("cfg:%s:%d:%d:%o", name, uid, gid, mode))
				}
			}
		}
	}
}

// c18PathShapes: the configured path reaches its executable through symlinked directories, link chains, relative link
// targets, "." and ".." segments. What counts is the file the kernel executes for that path (symlinks are resolved
// before ".." is applied): it must be the one that is tested. Every arrangement has a decoy with the opposite verdict
// where a lexical shortcut would look.
func c18PathShapes(ctx *Ctx, dir string) {
	marker := filepath.Join(dir, "marker-shapes")
	n := 0
	mk := func(p string, good bool) {
		_ = os.MkdirAll(filepath.Dir(p), 0755)
		_ = os.Remove(p)
		tag := "bad"
		if good {
			tag = "good"
		}
		_ = os.WriteFile(p, []byte("#!/bin/sh\necho "+tag+" >> "+marker+"\necho 7\n"), 0700)
		if good {
			_ = os.Chown(p, 0, 0)
		} else {
			_ = os.Chown(p, 1000, 1000)
		}
		_ = os.Chmod(p, 0o755)
	}
	type shape struct {
		name  string
		build func(base string, realGood bool) string // returns the configured path
	}
	shapes := []shape{
		{"dotdot-after-symlinked-directory", func(base string, realGood bool) string {
			// base/scripts -> base/user/scripts ; base/scripts/../run.sh is base/user/run.sh, not base/run.sh
			mk(filepath.Join(base, "user", "run.sh"), realGood)
			mk(filepath.Join(base, "run.sh"), !realGood)
			_ = os.MkdirAll(filepath.Join(base, "user", "scripts"), 0755)
			_ = os.Symlink(filepath.Join(base, "user", "scripts"), filepath.Join(base, "scripts"))
			return base + "/scripts/../run.sh"
		}},
		{"symlinked-directory", func(base string, realGood bool) string {
			mk(filepath.Join(base, "real", "run.sh"), realGood)
			_ = os.Symlink(filepath.Join(base, "real"), filepath.Join(base, "d"))
			return base + "/d/run.sh"
		}},
		{"link-chain", func(base string, realGood bool) string {
			mk(filepath.Join(base, "file.sh"), realGood)
			mk(filepath.Join(base, "decoy.sh"), !realGood)
			_ = os.Symlink(filepath.Join(base, "file.sh"), filepath.Join(base, "l2"))
			_ = os.Symlink(filepath.Join(base, "l2"), filepath.Join(base, "l1"))
			return base + "/l1"
		}},
		{"relative-link-target", func(base string, realGood bool) string {
			mk(filepath.Join(base, "sub", "file.sh"), realGood)
			mk(filepath.Join(base, "file.sh"), !realGood)
			_ = os.MkdirAll(filepath.Join(base, "links"), 0755)
			_ = os.Symlink("../sub/file.sh", filepath.Join(base, "links", "run"))
			return base + "/links/run"
		}},
		{"dot-segments", func(base string, realGood bool) string {
			mk(filepath.Join(base, "sub", "run.sh"), realGood)
			return base + "/./sub//./run.sh"
		}},
		{"dotdot-plain-directories", func(base string, realGood bool) string {
			mk(filepath.Join(base, "run.sh"), realGood)
			_ = os.MkdirAll(filepath.Join(base, "a", "b"), 0755)
			return base + "/a/b/../../run.sh"
		}},
	}
	// a relative path with a directory component: it is relative to fan2go's working directory, for the test and for
	// the execution alike (decoy one level deeper, where a changed working directory of the child would look)
	shapes = append(shapes, shape{"relative-path-with-directory", func(base string, realGood bool) string {
		mk(filepath.Join(base, "bin", "run.sh"), realGood)
		mk(filepath.Join(base, "bin", "bin", "run.sh"), !realGood)
		_ = os.Chdir(base)
		return "bin/run.sh"
	}})
	cwd, _ := os.Getwd()
	defer func() { _ = os.Chdir(cwd) }()
	for _, sh := range shapes {
		for _, realGood := range []bool{true, false} {
			for _, via := range []string{"SafeCmdExecution", "CmdSensor", "CmdFan.GetPwm"} {
				n++
				base := filepath.Join(dir, fmt.Sprintf("shape-%d", n))
				_ = os.MkdirAll(base, 0755)
				path := sh.build(base, realGood)
				before := readLines(marker)
				out, cerr, pmsg := c18Invoke(via, path)
				after := readLines(marker)
				ctx.Eval(1)
				ran := ""
				if len(after) > len(before) {
					ran = after[len(after)-1]
				}
				desc := fmt.Sprintf("%s via %s, path %s, the file the kernel executes is %s: ran %q out %q err %v", sh.name, via, strings.TrimPrefix(path, base), map[bool]string{true: "root-controlled", false: "owned by uid 1000"}[realGood], ran, out, cerr)
				switch {
				case pmsg != "":
					ctx.Violation("path-shape:panic:"+sh.name, desc+" "+firstLine(pmsg), desc)
				case ran == "bad":
					ctx.Violation("path-shape:executed-although-not-permitted:"+sh.name, desc, desc)
				case !realGood && cerr == nil:
					ctx.Violation("path-shape:not-permitted-but-no-error:"+sh.name, desc, desc)
				case realGood && (ran != "good" || cerr != nil):
					ctx.Violation("path-shape:permitted-executable-not-run:"+sh.name, desc, desc)
				}
				ctx.Nontrivial(fmt.Sprintf("shape:%s:%v:%s", sh.name, realGood, via))
			}
		}
	}
}

// c18ConfiguredExec: the exec path as the user wrote it in the configuration file, taken through the real loader
// (relative to the working directory: "./x", "sub/../x", "bin/x"; absolute), with a same-named decoy of the opposite
// verdict in a PATH directory. The file that is tested and run is the one the configured path names.
func c18ConfiguredExec(ctx *Ctx, dir string) {
	marker := filepath.Join(dir, "marker-cfgexec")
	mk := func(p string, good bool) {
		_ = os.MkdirAll(filepath.Dir(p), 0755)
		_ = os.Remove(p)
		tag := "decoy"
		if good {
			tag = "configured"
		}
		_ = os.WriteFile(p, []byte("#!/bin/sh\necho "+tag+" >> "+marker+"\necho 42000\n"), 0700)
		_ = os.Chown(p, 0, 0)
		_ = os.Chmod(p, 0o755)
	}
	cwd, _ := os.Getwd()
	oldPath := os.Getenv("PATH")
	saved := configuration.CurrentConfig
	defer func() {
		_ = os.Chdir(cwd)
		_ = os.Setenv("PATH", oldPath)
		configuration.CurrentConfig = saved
	}()
	// "run.sh": a bare name, with a file of that name in the working directory; "<only-in-PATH>": a bare name that exists
	// in a PATH directory only (there it is the other user's, world-writable file)
	forms := []string{"./run.sh", "sub/../run.sh", "bin/run.sh", "<abs>", "run.sh", "<only-in-PATH>"}
	for i, form := range forms {
		for _, configuredIsPermitted := range []bool{true, false} {
			base := filepath.Join(dir, fmt.Sprintf("cfgexec-%d-%v", i, configuredIsPermitted))
			_ = os.MkdirAll(filepath.Join(base, "sub"), 0755)
			pathDir := filepath.Join(base, "pathdir")
			real := filepath.Join(base, "run.sh")
			if form == "bin/run.sh" {
				real = filepath.Join(base, "bin", "run.sh")
			}
			mk(real, true)
			mk(filepath.Join(pathDir, "run.sh"), false)
			if !configuredIsPermitted {
				// the configured file belongs to somebody else; the decoy in PATH is root's
				_ = os.Chown(real, 1000, 1000)
			} else {
				_ = os.Chown(filepath.Join(pathDir, "run.sh"), 1000, 1000)
				_ = os.Chmod(filepath.Join(pathDir, "run.sh"), 0o777)
			}
			exe := form
			if form == "<abs>" {
				exe = real
			}
			if form == "<only-in-PATH>" {
				if !configuredIsPermitted {
					continue
				}
				exe = "run.sh"
				_ = os.Remove(real)
			}
			fanFile := filepath.Join(base, "fan")
			_ = os.WriteFile(fanFile, []byte("100\n"), 0644)
			text := fmt.Sprintf("dbPath: %s/fan2go.db\nsensors:\n  - id: s\n    cmd:\n      exec: %s\ncurves:\n  - id: c\n    linear:\n      sensor: s\n      min: 40\n      max: 80\nfans:\n  - id: f\n    curve: c\n    file:\n      path: %s\n", base, exe, fanFile)
			cfgPath := filepath.Join(base, "fan2go.yaml")
			_ = os.WriteFile(cfgPath, []byte(text), 0644)
			_ = os.Chdir(base)
			_ = os.Setenv("PATH", pathDir+":"+oldPath)
			viper.Reset()
			var lerr error
			var out string
			var gerr error
			before := readLines(marker)
			panicked, pmsg := Guard(func() {
				configuration.InitConfig(cfgPath)
				if lerr = viper.ReadInConfig(); lerr != nil {
					return
				}
				configuration.LoadConfig()
				if len(configuration.CurrentConfig.Sensors) != 1 {
					lerr = fmt.Errorf("sensor entry not loaded")
					return
				}
				sn, err := sensors.NewSensor(configuration.CurrentConfig.Sensors[0])
				if err != nil {
					lerr = err
					return
				}
				var v float64
				v, gerr = sn.GetValue()
				out = fmt.Sprint(v)
			})
			after := readLines(marker)
			ctx.Eval(1)
			ran := ""
			if len(after) > len(before) {
				ran = after[len(after)-1]
			}
			desc := fmt.Sprintf("exec: %s (working directory = the configuration's directory, a same-named file of the opposite verdict in PATH), configured file permitted=%v: ran %q out %q err %v load %v", form, configuredIsPermitted, ran, out, gerr, lerr)
			switch {
			case panicked:
				ctx.Violation("configured-exec:panic:"+form, desc+" "+firstLine(pmsg), desc)
			case lerr != nil:
				ctx.Violation("configured-exec:documented-entry-not-loaded:"+form, desc, desc)
			case ran == "decoy":
				ctx.Violation("configured-exec:a-different-file-was-run:"+form, desc, desc)
			case form == "<only-in-PATH>" && (ran != "" || gerr == nil):
				ctx.Violation("configured-exec:file-from-PATH-run-without-the-test:"+form, desc, desc)
			case form == "<only-in-PATH>":
				ctx.Nontrivial("configured-exec:only-in-PATH")
			case !configuredIsPermitted && (ran != "" || gerr == nil):
				ctx.Violation("configured-exec:executed-although-not-permitted:"+form, desc, desc)
			case configuredIsPermitted && (ran != "configured" || gerr != nil):
				ctx.Violation("configured-exec:permitted-executable-not-run:"+form, desc, desc)
			default:
				ctx.Nontrivial(fmt.Sprintf("configured-exec:%s:%v", form, configuredIsPermitted))
			}
		}
	}
}

// c18BusyThenChanged: the executable passes the test but is being written at that moment (the kernel refuses to run it,
// "text file busy"); before the writer closes it, ownership and mode change. Whatever fan2go does about the busy file,
// nothing may be run that was not tested at the time it is run.
func c18BusyThenChanged(ctx *Ctx, dir string) {
	marker := filepath.Join(dir, "marker-busy")
	for i, via := range []string{"SafeCmdExecution", "CmdSensor", "CmdFan.GetPwm"} {
		p := filepath.Join(dir, fmt.Sprintf("busy-%d.sh", i))
		_ = os.Remove(p)
		_ = os.WriteFile(p, []byte("#!/bin/sh\necho ran >> "+marker+"\necho 4242\n"), 0755)
		_ = os.Chown(p, 0, 0)
		_ = os.Chmod(p, 0o755)
		w, err := os.OpenFile(p, os.O_WRONLY, 0)
		if err != nil {
			ctx.Inconclusive("busy executable: " + err.Error())
			return
		}
		before := markerCount(marker)
		type res struct {
			out  string
			err  error
			pmsg string
		}
		done := make(chan res, 1)
		go func() {
			o, e, pm := c18Invoke(via, p)
			done <- res{o, e, pm}
		}()
		// the first attempt is over after a few milliseconds; then the file stops being root's
		var r res
		returned := false
		select {
		case r = <-done:
			returned = true
		case <-time.After(150 * time.Millisecond):
		}
		_ = os.Chown(p, 1000, 1000)
		_ = os.Chmod(p, 0o777)
		_ = w.Close()
		if !returned {
			select {
			case r = <-done:
			case <-time.After(20 * time.Second):
				ctx.Violation("busy-executable:call-did-not-return:"+via, "no result 20 s after the writer closed the file", nil)
				return
			}
		}
		ctx.Eval(1)
		ran := markerCount(marker) > before
		desc := fmt.Sprintf("via %s: root-owned 0755 script held open for writing when called, chown 1000 + chmod 0777 150 ms later, then closed: ran=%v out=%q err=%v", via, ran, r.out, r.err)
		switch {
		case r.pmsg != "":
			ctx.Violation("busy-executable:panic:"+via, desc+" "+firstLine(r.pmsg), desc)
		case ran:
			ctx.Violation("busy-executable:executed-although-not-permitted-any-more:"+via, desc, desc)
		default:
			ctx.Nontrivial("busy-then-changed:" + via)
		}
	}
}

// c18OverlappingCalls: the daemon calls one configured tool from several goroutines (control loop, RPM monitor,
// Prometheus scrape). While one slow invocation is running a second call of the same executable arrives, and then the
// file stops being safe. Whatever fan2go does about overlapping calls, no invocation may begin after that moment: the
// test belongs to the execution, not to the call's arrival.
func c18OverlappingCalls(ctx *Ctx, dir string) {
	marker := filepath.Join(dir, "marker-overlap")
	startsOf := func() []int64 {
		var ts []int64
		for _, l := range readLines(marker) {
			f := strings.Fields(l)
			if len(f) == 2 && f[0] == "start" {
				n, _ := strconv.ParseInt(f[1], 10, 64)
				ts = append(ts, n)
			}
		}
		return ts
	}
	waitStarts := func(n int, d time.Duration) bool {
		for t0 := time.Now(); time.Since(t0) < d; time.Sleep(5 * time.Millisecond) {
			if len(startsOf()) >= n {
				return true
			}
		}
		return len(startsOf()) >= n
	}
	changes := []struct {
		name string
		do   func(p string)
	}{
		{"chmod-o+w", func(p string) { _ = os.Chmod(p, 0o757) }},
		{"chown-1000", func(p string) { _ = os.Chown(p, 1000, 0) }},
		{"chgrp-1000+g+w", func(p string) { _ = os.Chown(p, 0, 1000); _ = os.Chmod(p, 0o775) }},
	}
	for i, pair := range [][2]string{{"CmdFan.GetPwm", "CmdFan.GetRpm"}, {"SafeCmdExecution", "SafeCmdExecution"}, {"CmdSensor", "CmdSensor"}} {
		ch := changes[i%len(changes)]
		p := filepath.Join(dir, fmt.Sprintf("overlap-%d.sh", i))
		_ = os.Remove(p)
		_ = os.Remove(marker)
		_ = os.WriteFile(p, []byte("#!/bin/sh\necho start $(date +%s%N) >> "+marker+"\nsleep 1.2\necho 4242\n"), 0755)
		_ = os.Chown(p, 0, 0)
		_ = os.Chmod(p, 0o755)
		type res struct {
			out  string
			err  error
			pmsg string
		}
		doneA, doneB := make(chan res, 1), make(chan res, 1)
		go func() { o, e, pm := c18Invoke(pair[0], p); doneA <- res{o, e, pm} }()
		if !waitStarts(1, 5*time.Second) {
			ctx.Inconclusive("overlapping calls: the first invocation did not begin within 5 s")
			<-doneA
			return
		}
		go func() { o, e, pm := c18Invoke(pair[1], p); doneB <- res{o, e, pm} }()
		// (an implementation running both at once has begun the second one by now; one that queues it has not)
		secondBegan := waitStarts(2, 500*time.Millisecond)
		ch.do(p)
		changed := time.Now().UnixNano()
		ra, rb := <-doneA, <-doneB
		ctx.Eval(1)
		desc := fmt.Sprintf("%s while a slow %s of the same root-owned 0755 executable is running; then %s; results: first out=%q err=%v, second out=%q err=%v; second had begun before the change: %v", pair[1], pair[0], ch.name, ra.out, ra.err, rb.out, rb.err, secondBegan)
		if ra.pmsg != "" || rb.pmsg != "" {
			ctx.Violation("overlapping-calls:panic:"+pair[1], desc+" "+firstLine(ra.pmsg+rb.pmsg), desc)
			continue
		}
		late := 0
		for _, t := range startsOf() {
			// (well after the change, not within the few milliseconds between an exec and the script's first line)
			if t > changed+int64(300*time.Millisecond) {
				late++
			}
		}
		if late > 0 {
			ctx.Violation("overlapping-calls:executed-although-not-permitted-any-more:"+pair[1]+":"+ch.name, fmt.Sprintf("%d invocation(s) began more than 300 ms after the file had stopped being safe: %s", late, desc), desc)
			continue
		}
		ctx.Count("overlapping_calls_of_one_executable", 1)
		ctx.Nontrivial("overlapping-calls:" + pair[1] + ":" + ch.name)
	}
}

// c18Unprivileged: fan2go does not have to run as root (the daemon only prints a hint). The rule is about the file, not
// about who runs fan2go: run as another user, an executable owned by that very user is still not root's. A child
// process of the harness drops to uid/gid 12345 and calls the entry points on three scripts: root's (runs), the user's
// own (refused), another user's (refused). Each script leaves a marker.
func c18Unprivileged(ctx *Ctx) {
	pub, err := os.MkdirTemp("/dev/shm", "verif-c18-unprivileged-")
	if err != nil {
		ctx.Inconclusive("unprivileged: " + err.Error())
		return
	}
	defer os.RemoveAll(pub)
	_ = os.Chmod(pub, 0o755)
	exe := filepath.Join(pub, "vh")
	src, err := os.ReadFile(selfExe())
	if err != nil || os.WriteFile(exe, src, 0o755) != nil {
		ctx.Inconclusive("unprivileged: cannot copy the harness binary")
		return
	}
	_ = os.MkdirAll(filepath.Join(pub, "scratch"), 0o777)
	_ = os.Chmod(filepath.Join(pub, "scratch"), 0o777)
	mk := func(name string, uid int) {
		p := filepath.Join(pub, name)
		_ = os.WriteFile(p, []byte("#!/bin/sh\necho ran >> "+pub+"/scratch/marker-"+name+"\necho 42\n"), 0o755)
		_ = os.Chown(p, uid, uid)
		_ = os.Chmod(p, 0o755)
	}
	mk("roots.sh", 0)
	mk("own.sh", 12345)
	mk("others.sh", 1000)
	cmd := exec.Command(exe, "C18", "--mode", "unprivileged", "--arg", pub, "--scratch", filepath.Join(pub, "scratch"))
	cmd.SysProcAttr = &syscall.SysProcAttr{Credential: &syscall.Credential{Uid: 12345, Gid: 12345}}
	cmd.Dir = pub
	out, err := cmd.CombinedOutput()
	ctx.Eval(3)
	if err != nil && !strings.Contains(string(out), "UNPRIV ") {
		ctx.Inconclusive("unprivileged: the child process could not run: " + err.Error() + " " + trunc(string(out)))
		return
	}
	ran := func(name string) bool { _, e := os.Stat(filepath.Join(pub, "scratch", "marker-"+name)); return e == nil }
	desc := fmt.Sprintf("fan2go's entry points called by a process running as uid/gid 12345: root's script ran=%v, the user's own script ran=%v, another user's script ran=%v; child output: %s", ran("roots.sh"), ran("own.sh"), ran("others.sh"), trunc(string(out)))
	switch {
	case ran("own.sh"):
		ctx.Violation("unprivileged:executable-owned-by-the-invoking-user-was-run", desc, nil)
	case ran("others.sh"):
		ctx.Violation("unprivileged:executable-owned-by-another-user-was-run", desc, nil)
	case !ran("roots.sh"):
		ctx.Violation("unprivileged:root-owned-executable-not-run", desc, nil)
	default:
		ctx.Nontrivial("unprivileged-invoker")
	}
}

func c18UnprivilegedChild(pub string) {
	for _, name := range []string{"roots.sh", "own.sh", "others.sh"} {
		for _, via := range []string{"SafeCmdExecution", "CmdSensor"} {
			out, err, pm := c18Invoke(via, filepath.Join(pub, name))
			fmt.Printf("UNPRIV %s via %s: out=%q err=%v panic=%q uid=%d\n", name, via, out, err, firstLine(pm), os.Geteuid())
		}
	}
	os.Exit(0)
}
