package main

import (
	"strings"
	"encoding/json"
	"fmt"
	"math/rand"
	"os"
)

// C05 — external interference with a fan is undone within one control cycle.
//
// An "intruder" changes the control mode and/or the PWM value of the device
// between cycles (and, for the restoration clause only, in the middle of a
// cycle). After the next complete cycle: mode == 1 (manual) and device PWM ==
// pwmMap[nearest supported input of the current request]. The third-party
// counter rises by exactly 1 iff the intruder left the PWM at a value different
// from what fan2go had set while the controller was quiescent, and by 0 in
// every cycle without interference (writes succeeding).

func c05Base(r *rand.Rand, kind string, mapKind string) *Scenario {
	kind, home := homeKind(r, kind)
	fan := FanSpec{Kind: kind, HomePath: home, ViaLoader: kind != "sim" && r.Intn(4) == 0, NeverStop: false, HasRpm: r.Intn(2) == 0, HasEnable: true, HasPwm: true, SimMin: 0, SimMax: 255}
	if kind == "hwmon" && r.Intn(2) == 0 {
		mn, mx := genLimits(r)
		fan.CfgMin, fan.CfgMax = iptr(mn), iptr(mx)
		fan.NeverStop = r.Intn(2) == 0
	}
	sc := &Scenario{Fan: fan, Window: 10, Plant: PlantSpec{Kind: "const", Const: 1500}, PriorRpm: 1500, InitPwm: r.Intn(256), InitMode: pick(r, 1, 2)}
	switch mapKind {
	case "identity":
		sc.Map = MapSpec{Kind: "identity"}
	case "readme":
		sc.Map = MapSpec{Kind: "readme"}
	case "quant":
		sc.Map = MapSpec{Kind: "quant", Levels: 2 + r.Intn(15)}
	default:
		sc.Map = genMap(r, kind != "sim")
	}
	sc.Loop = pick(r, LoopSpec{Kind: "direct"}, LoopSpec{Kind: "direct"}, LoopSpec{Kind: "ratelimit", M: 1 + r.Intn(20)}, LoopSpec{Kind: "pid", P: 0.3, I: 0.02, D: 0.005})
	return sc
}

func checkC05(ctx *Ctx, sc *Scenario) {
	interfered := 0
	var lastMidCycle = -10
	var lastFailCycle = -10
	prevDevAfter := -1
	runScenario(ctx, sc, func(w *World, rec *CycleRecord) bool {
		ctx.Eval(1)
		class := fmt.Sprintf("%s:%s:%s", sc.Fan.Label(), sc.Map.Kind, sc.Loop.Kind)
		if rec.Panic != "" {
			ctx.Violation("panic-in-cycle:"+class, rec.Panic, sc)
			return true
		}
		if rec.Err != nil || !rec.HasRequest {
			return true
		}
		if rec.Step.CmdFail {
			// every call of the tool failed during this cycle: nothing is demanded of it, and - the writes not having
			// succeeded - nothing of the counter in the cycle that follows
			lastFailCycle = rec.Idx
			ctx.Count("cycles_in_which_every_call_of_the_tool_failed", 1)
			return false
		}
		if rec.MidApplied {
			lastMidCycle = rec.Idx
			ctx.Count("mid_cycle_interferences", 1)
			interfered++
			return false // the state after this cycle is unspecified; the next complete cycle is checked
		}
		// expected device state after a complete cycle
		var want []int
		for _, k := range refNearest(w.Supp, rec.Request) {
			want = append(want, w.PwmMap[k])
		}
		okPwm := false
		for _, v := range want {
			if rec.DevPwmAfter == v {
				okPwm = true
			}
		}
		it := rec.Step.Intrude
		how := "no-interference"
		if it != nil {
			how = fmt.Sprintf("mode=%v:pwm=%v", it.Mode != nil, it.Pwm != nil)
		} else if lastMidCycle == rec.Idx-1 {
			how = "after-mid-cycle-interference"
		}
		if !okPwm {
			ctx.Violation("pwm-not-restored:"+how+":"+class, fmt.Sprintf("cycle %d: device pwm %d after the cycle, request %d needs %v (intrusion %s)", rec.Idx, rec.DevPwmAfter, rec.Request, want, jsonStr(it)), sc)
		}
		if sc.Fan.HasEnable && rec.DevModeAfter != 1 {
			ctx.Violation("mode-not-manual:"+how+":"+class, fmt.Sprintf("cycle %d: mode %d after the cycle (intrusion %s)", rec.Idx, rec.DevModeAfter, jsonStr(it)), sc)
		}
		// counting clause
		delta := rec.StatsAfter.UnexpectedPwmValueCount - rec.StatsBefore.UnexpectedPwmValueCount
		if it != nil && it.Unreadable {
			// fan2go cannot see the change in this cycle (it must put the fan right all the same); nothing is demanded of the counter
			ctx.Count("interferences_while_the_pwm_cannot_be_read", 1)
		} else if rec.HadPrev && prevDevAfter >= 0 && lastMidCycle != rec.Idx-1 && lastFailCycle != rec.Idx-1 {
			// what fan2go had set is what the device held after the previous complete cycle
			// (checked there to be a map output of a nearest supported input)
			prevWant := []int{prevDevAfter}
			changed := rec.DevPwmBefore != prevDevAfter
			switch {
			case it == nil && delta != 0:
				ctx.Violation("third-party-counted-without-interference:"+class, fmt.Sprintf("cycle %d: counter +%d, device pwm before the cycle %d, previous request %d", rec.Idx, delta, rec.DevPwmBefore, rec.PrevRequest), sc)
			case it != nil && it.Pwm != nil && changed && delta != 1:
				ctx.Violation(fmt.Sprintf("pwm-change-not-counted-once:delta=%d:%s", delta, class), fmt.Sprintf("cycle %d: intruder left pwm %d (fan2go had set %v), counter +%d", rec.Idx, rec.DevPwmBefore, prevWant, delta), sc)
			case it != nil && !changed && delta != 0:
				ctx.Violation("counted-although-pwm-unchanged:"+class, fmt.Sprintf("cycle %d: intrusion %s left pwm at %d = what fan2go had set, counter +%d", rec.Idx, jsonStr(it), rec.DevPwmBefore, delta), sc)
			}
			if it != nil && it.Pwm != nil && changed {
				ctx.Count("pwm_changes_counted", 1)
			}
		}
		prevDevAfter = rec.DevPwmAfter
		if it != nil {
			// positive control: the intrusion really is what the controller saw
			interfered++
			ctx.Count("interferences", 1)
		}
		return false
	})
	if interfered > 0 {
		ctx.Nontrivial(hash64(jsonStr(sc)))
	}
}

func init() {
	register("C05", func(ctx *Ctx) {
		if ctx.Replay != "" {
			var sc Scenario
			b, err := os.ReadFile(ctx.Replay)
			if err == nil {
				err = json.Unmarshal(b, &sc)
			}
			if err != nil {
				ctx.Inconclusive("cannot read replay: " + err.Error())
				return
			}
			checkC05(ctx, &sc)
			return
		}
		if ctx.Batch == 0 {
			c05Concurrent(ctx)
		}
		r := ctx.Rng
		// systematic part: one interference at a chosen cycle index, all modes, a grid of pwm values
		idxs := []int{1, 2, 7, 40}
		pwmStep := 8
		if ctx.Thorough() {
			idxs = nil
			for i := 1; i <= 40; i++ {
				idxs = append(idxs, i)
			}
			pwmStep = 1
		}
		n := 0
		for _, mk := range []string{"identity", "readme", "quant"} {
			for _, at := range idxs {
				for _, mode := range []int{-1, 0, 2, 3} {
					for pwm := -1; pwm <= 255; pwm += pwmStep {
						if mode < 0 && pwm < 0 {
							continue
						}
						n++
						if n%ctx.Of != ctx.Batch {
							continue
						}
						sc := c05Base(r, pick(r, "hwmon", "hwmon", "sim"), mk)
						traj := genCurveTrajectory(r, at+3, false)
						for i := 0; i < at+3; i++ {
							st := CycleStep{Curve: traj[i], DtMs: 200, Polls: 1}
							if i == at {
								st.Intrude = &Intrusion{}
								if mode >= 0 {
									st.Intrude.Mode = iptr(mode)
								}
								if pwm >= 0 {
									st.Intrude.Pwm = iptr(pwm)
								}
							}
							sc.Steps = append(sc.Steps, st)
						}
						if n < 40 {
							ctx.SampleKind("systematic", map[string]interface{}{"kind": "systematic", "fan": sc.Fan.Kind, "map": sc.Map.Kind, "loop": sc.Loop, "interference_at_cycle": at, "intrusion": sc.Steps[at].Intrude})
						}
						checkC05(ctx, sc)
					}
				}
			}
		}
		// cmd fans (every cycle runs the tool two or three times): interference between cycles, in a third of the cases
		// while the tool cannot be queried during the following cycle
		for i, nc := 0, ctx.N(16, 100); i < nc; i++ {
			sc := c05Base(r, "cmd", "identity")
			sc.Fan.HasEnable = false
			sc.Fan.CmdOneTool = r.Intn(2) == 0
			// half of the tools write a diagnostic to stderr while they answer (the value on stdout, exit status 0)
			sc.Fan.CmdChatty = (ctx.Batch+i)%2 == 1
			sc.Loop = LoopSpec{Kind: "direct"}
			traj := genCurveTrajectory(r, 30, false)
			for k := 0; k < 30; k++ {
				st := CycleStep{Curve: traj[k], DtMs: 200, Polls: 1}
				if k > 4 && r.Intn(8) == 0 && sc.Steps[k-1].Intrude == nil {
					// the tool is busy for one whole cycle (another program holds the device) ...
					sc.Steps[k-1].CmdFail = true
				}
				if k > 2 && r.Intn(5) == 0 && !sc.Steps[k-1].CmdFail || k > 2 && sc.Steps[k-1].CmdFail && r.Intn(2) == 0 {
					// ... and in half of those cases that program has changed the PWM when the next cycle begins
					st.Intrude = &Intrusion{Pwm: iptr(r.Intn(256)), Unreadable: r.Intn(2) == 0 && !sc.Steps[k-1].CmdFail}
					if r.Intn(3) > 0 {
						// the target has been the same for two quiet cycles and stays the same
						sc.Steps[k-1].Curve = sc.Steps[k-2].Curve
						st.Curve = sc.Steps[k-2].Curve
					}
				}
				sc.Steps = append(sc.Steps, st)
			}
			checkC05(ctx, sc)
		}
		// random multi-interference histories incl. mid-cycle interference
		nr := ctx.N(8000, 80000)
		for i := 0; i < nr; i++ {
			sc := c05Base(r, pick(r, "hwmon", "hwmon", "file", "sim"), "")
			if sc.Fan.Kind == "file" {
				sc.Fan.HasEnable = false
			}
			traj := genCurveTrajectory(r, 120, false)
			for k := 0; k < 120; k++ {
				st := CycleStep{Curve: traj[k], DtMs: pick(r, int64(50), 200, 1000), Polls: 1}
				switch r.Intn(16) {
				case 0:
					st.Intrude = &Intrusion{Mode: iptr(pick(r, 0, 2, 3))}
				case 1:
					st.Intrude = &Intrusion{Pwm: iptr(r.Intn(256))}
				case 2:
					st.Intrude = &Intrusion{Mode: iptr(pick(r, 0, 2, 3)), Pwm: iptr(r.Intn(256))}
				case 3:
					if sc.Fan.Kind != "sim" {
						st.Mid = &MidIntrusion{AtOp: 1 + r.Intn(8), Pwm: iptr(r.Intn(256))}
						if r.Intn(2) == 0 {
							st.Mid.Mode = iptr(pick(r, 0, 2, 3))
						}
					}
				}
				sc.Steps = append(sc.Steps, st)
			}
			if strings.HasPrefix(sc.Fan.Kind, "file") && r.Intn(3) == 0 {
				// the file fan's PWM file is still empty when regulation begins (the service providing it writes its first value
				// a moment later); from the second cycle on it reads normally
				sc.Steps[0].Intrude, sc.Steps[0].Mid = nil, nil
				sc.Steps[0].Fault = &FaultSpec{Target: "pwm", Op: "r", Action: "content", Raw: ""}
			}
			if i < 2 {
				ctx.SampleKind("random", map[string]interface{}{"kind": "random", "fan": sc.Fan, "map": sc.Map.Kind, "loop": sc.Loop, "cycles": 120})
			}
			checkC05(ctx, sc)
		}
	})
}
