// Command vh is the in-process verification harness for fan2go. It lives
// inside the module (internal/verif/vh in the scratch copy) so that it may
// import fan2go's internal packages. One sub-command per property; each run
// executes a batch of generated cases against the real code with monitors
// attached and writes one JSON result document.
package main

import (
	"encoding/json"
	"flag"
	"fmt"
	"os"
	"runtime/debug"
	"sort"

	"github.com/markusressel/fan2go/internal/util"
	"github.com/pterm/pterm"
)

type runner func(ctx *Ctx)

var runners = map[string]runner{}

func register(name string, r runner) { runners[name] = r }

func main() {
	if len(os.Args) < 2 {
		fmt.Fprintln(os.Stderr, "usage: vh <property> [flags]")
		os.Exit(2)
	}
	name := os.Args[1]
	fs := flag.NewFlagSet(name, flag.ExitOnError)
	seed := fs.Int64("seed", 1, "seed")
	tier := fs.String("tier", "quick", "quick|thorough")
	batch := fs.Int("batch", 0, "batch index")
	of := fs.Int("of", 1, "number of batches")
	out := fs.String("out", "", "result file (default stdout)")
	replay := fs.String("replay", "", "replay file")
	caselog := fs.String("caselog", "", "file receiving the current case before it runs")
	scratch := fs.String("scratch", "", "scratch directory")
	mode := fs.String("mode", "", "sub-mode (property specific)")
	arg := fs.String("arg", "", "extra argument (property specific)")
	verbose := fs.Bool("v", false, "keep fan2go's own log output")
	_ = fs.Parse(os.Args[2:])

	r, ok := runners[name]
	if !ok {
		var names []string
		for n := range runners {
			names = append(names, n)
		}
		sort.Strings(names)
		fmt.Fprintf(os.Stderr, "unknown property %q; have %v\n", name, names)
		os.Exit(2)
	}
	if !*verbose {
		pterm.DisableOutput()
	}
	ctx := newCtx(name, *seed, *tier, *batch, *of, *replay, *caselog, *scratch)
	ctx.Mode = *mode
	ctx.Arg = *arg
	util.VerifScratchDir = *scratch
	func() {
		defer func() {
			if p := recover(); p != nil {
				if _, ok := p.(abortBatch); ok {
					return // a case left a goroutine stuck inside fan2go: the batch ends with what it has recorded
				}
				ctx.Violation("harness-panic", fmt.Sprintf("panic outside a guarded case: %v\n%s", p, debug.Stack()), nil)
				ctx.Res.HarnessError = fmt.Sprintf("%v", p)
			}
		}()
		r(ctx)
	}()
	if driver != nil && driver.RealOps > 0 {
		ctx.Count("device_accesses_through_real_util_file_go", int64(driver.RealOps))
	}
	ctx.finish()
	data, _ := json.Marshal(ctx.Res)
	if *out != "" {
		if err := os.WriteFile(*out, data, 0644); err != nil {
			fmt.Fprintln(os.Stderr, err)
			os.Exit(2)
		}
	} else {
		fmt.Println(string(data))
	}
}
