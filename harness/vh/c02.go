package main

import (
	"encoding/json"
	"fmt"
	"math/rand"
	"os"
	"sync/atomic"
	"time"

	"github.com/markusressel/fan2go/internal/configuration"
	"github.com/markusressel/fan2go/internal/control_loop"
	"github.com/markusressel/fan2go/internal/controller"
	"github.com/markusressel/fan2go/internal/util"
)

// C02 — a never-stop fan is never driven below its minimum, and the minimum never drops.
//
// Monitor state per history: F0 = the fan's minimum when regulation starts,
// previous request, previous GetMinPwm(), previous statistics. After every cycle:
//   r >= F0 + MinPwmOffset            (the raised minimum, as exported in the statistics)
//   r >= fan.GetMinPwm()              (read before the cycle)
//   GetMinPwm() and MinPwmOffset never decrease
//   at a raise (IncreasedMinPwmCount increments): r > previous request

func genC02(r *rand.Rand, kind string) *Scenario {
	fan, _, _ := genFan(r, []string{kind})
	for !fan.NeverStop {
		// (the expected minimum of a generated fan depends on neverStop)
		fan, _, _ = genFan(r, []string{kind})
	}
	fan.HasRpm = true
	fan.HasPwm = true
	if fan.Kind == "hwmon" && fan.CfgMin == nil && fan.Measured == nil {
		fan.CfgMin, fan.CfgMax = iptr(30), iptr(200)
	}
	sc := &Scenario{Fan: fan, Loop: genLoop(r), Map: MapSpec{Kind: "identity"}}
	if r.Intn(3) == 0 {
		sc.Map = genMap(r, false)
	}
	if r.Intn(3) > 0 {
		sc.Loop = LoopSpec{Kind: "direct"}
	}
	sc.Window = pick(r, 1, 1, 1, 2, 10)
	sc.Plant = PlantSpec{Kind: "threshold", Theta: 0, MaxRpm: 2000}
	sc.InitPwm = r.Intn(256)
	sc.InitMode = 2
	sc.PriorRpm = pick(r, 0.0, 0.0, 800)
	n := 160
	if kind == "cmd" {
		n = 30
	}
	// constant-curve phases with stall episodes (threshold jumps above the current operating point)
	cur := r.Intn(256)
	stalled := false
	for i := 0; i < n; i++ {
		st := CycleStep{Curve: cur, DtMs: 200, Polls: pick(r, 1, 1, 2, 5)}
		if r.Intn(30) == 0 {
			cur = r.Intn(256)
			if r.Intn(5) == 0 {
				// curve values outside 0..255 (a step curve with a negative speed, a sum of curves): still never below the minimum
				cur = pick(r, -1, -30, -1000, 256, 300, 100000)
			}
		}
		if !stalled && r.Intn(12) == 0 {
			t := pick(r, 256, 256, 1+r.Intn(255))
			st.Theta = &t
			stalled = true
		} else if stalled && r.Intn(10) == 0 {
			t := 0
			st.Theta = &t
			stalled = false
		}
		sc.Steps = append(sc.Steps, st)
	}
	return sc
}

func checkC02(ctx *Ctx, sc *Scenario) {
	first := true
	var f0, prevMin, prevOff int
	raises := 0
	cyclesAfterRaise := 0
	runScenario(ctx, sc, func(w *World, rec *CycleRecord) bool {
		ctx.Eval(1)
		class := sc.Fan.Label()
		if sc.Fan.Kind == "hwmon" {
			if sc.Fan.CfgMin != nil {
				class += "-configured"
			} else {
				class += "-measured"
			}
		}
		if rec.Panic != "" {
			ctx.Violation("panic-in-cycle:"+class, rec.Panic, sc)
			return true
		}
		if first {
			f0, prevMin, prevOff = rec.MinBefore, rec.MinBefore, 0
			first = false
		}
		if rec.Err != nil {
			return true
		}
		off := rec.StatsAfter.MinPwmOffset
		raised := rec.StatsAfter.IncreasedMinPwmCount > rec.StatsBefore.IncreasedMinPwmCount
		r := rec.Request
		if r < f0+off {
			ctx.Violation("request-below-raised-minimum:"+class, fmt.Sprintf("cycle %d: request %d < initial minimum %d + offset %d (curve %d, loop %s)", rec.Idx, r, f0, off, rec.Step.Curve, sc.Loop.Kind), sc)
		}
		// the minimum the user's configuration / the attached measurement define - not what fan2go's getter says
		if sc.Fan.ExpMin != nil && r < *sc.Fan.ExpMin {
			ctx.Violation("request-below-configured-or-measured-minimum:"+class, fmt.Sprintf("cycle %d: request %d < minimum %d (configured min %s, start %s, max %s; GetMinPwm() says %d; curve %d, loop %s)", rec.Idx, r, *sc.Fan.ExpMin, pstr(sc.Fan.CfgMin), pstr(sc.Fan.CfgStart), pstr(sc.Fan.CfgMax), rec.MinBefore, rec.Step.Curve, sc.Loop.Kind), sc)
		}
		if r < rec.MinBefore {
			ctx.Violation("request-below-fan-minimum:"+class, fmt.Sprintf("cycle %d: request %d < GetMinPwm() %d", rec.Idx, r, rec.MinBefore), sc)
		}
		if rec.MinBefore < prevMin || rec.MinAfter < rec.MinBefore {
			ctx.Violation("fan-minimum-dropped:"+class, fmt.Sprintf("cycle %d: GetMinPwm() went %d -> %d -> %d (initial %d, offset %d)", rec.Idx, prevMin, rec.MinBefore, rec.MinAfter, f0, off), sc)
		}
		if off < prevOff {
			ctx.Violation("offset-dropped:"+class, fmt.Sprintf("cycle %d: offset %d -> %d", rec.Idx, prevOff, off), sc)
		}
		if raised {
			raises++
			if !rec.HadPrev || r <= rec.PrevRequest {
				ctx.Violation("raise-not-strictly-higher:"+class, fmt.Sprintf("cycle %d: raise but request %d <= previous %d", rec.Idx, r, rec.PrevRequest), sc)
			}
			if off != prevOff+1 && off <= prevOff {
				ctx.Violation("raise-without-offset-increase:"+class, fmt.Sprintf("cycle %d: offset %d -> %d", rec.Idx, prevOff, off), sc)
			}
		} else if raises > 0 {
			cyclesAfterRaise++
		}
		prevMin, prevOff = rec.MinAfter, off
		return false
	})
	ctx.Count("raises", int64(raises))
	ctx.Count("cycles_after_first_raise", int64(cyclesAfterRaise))
	if raises > 0 {
		r := raises
		if r > 5 {
			r = 5
		}
		ctx.Nontrivial(fmt.Sprintf("%s|cfg=%v|meas=%v|%s|m%d|%s|w%d|raises%d|%d", sc.Fan.Kind, sc.Fan.CfgMin != nil, sc.Fan.Measured != nil, sc.Loop.Kind, sc.Loop.M, sc.Map.Kind, sc.Window, r, hashStr(jsonStr(sc.Steps))%1000))
	}
}

// c02FirstRun: the very first start of a never-stop hwmon fan - initial analysis, stored data loaded back, regulation -
// and later starts with the stored data. With the curve at 0 and a fan that spins at every PWM value the request must
// be the configured minimum from the first regulation cycle on, on every start.
func c02FirstRun(ctx *Ctx) {
	r := ctx.Rng
	cfgMin := 30 + r.Intn(120)
	spec := RigSpec{FanKind: "hwmon", SensorKind: "file", CurveKind: "linear", HasEnable: r.Intn(2) == 0, HasRpm: true, NeverStop: true, OrigMode: 2, OrigPwm: 100,
		Stored: false, Levels: pick(r, 4, 6, 9), Window: pick(r, 1, 3, 10), Theta: 1, Algo: "direct", TempMdeg: 20000, CfgMin: iptr(cfgMin)}
	switch r.Intn(3) {
	case 0:
		spec.CfgMax = iptr(cfgMin + 10 + r.Intn(255-cfgMin-9))
	case 1:
		spec.CfgStart = iptr(r.Intn(256))
	}
	c02FirstRunSpec(ctx, spec)
}

func c02FirstRunSpec(ctx *Ctx, spec RigSpec) {
	controller.VerifTimescale = 50
	cfgMin := *spec.CfgMin
	ctx.LogCase(map[string]interface{}{"class": "first-run:process-died", "spec": spec})
	rig := newRig(ctx, spec)
	defer rig.close()
	cls := fmt.Sprintf("first-run:min=%v:start=%v:max=%v", spec.CfgMin != nil, spec.CfgStart != nil, spec.CfgMax != nil)
	for start := 1; start <= 2; start++ {
		if start == 2 {
			// a second start on the stored data: new controller object, same fan configuration and persistence
			rig.Ctrl = controller.NewFanController(rig.Pers, rig.Fan, control_loop.NewDirectControlLoop(nil), configuration.CurrentConfig.ControllerAdjustmentTickRate)
			atomic.StoreInt64(&rig.Evals, 0)
		}
		cancel, done, wg := rig.start()
		deadline := time.Now().Add(60 * time.Second)
		for atomic.LoadInt64(&rig.Evals) < 12 && time.Now().Before(deadline) {
			select {
			case res := <-done:
				done <- res
				deadline = time.Now()
			default:
				time.Sleep(2 * time.Millisecond)
			}
		}
		evals := atomic.LoadInt64(&rig.Evals)
		req, has := rig.Ctrl.(*controller.DefaultFanController).VerifLastSetPwm()
		minNow := rig.Fan.GetMinPwm()
		cancel()
		select {
		case <-done:
		case <-time.After(30 * time.Second):
			ctx.Inconclusive("first-run: controller did not stop: " + jsonStr(spec))
			ctx.Abort = true
			return
		}
		wg.Wait()
		ctx.Eval(1)
		if evals < 12 {
			ctx.Inconclusive(fmt.Sprintf("first-run: regulation did not begin (start %d): %s", start, jsonStr(spec)))
			return
		}
		if minNow != cfgMin {
			ctx.Violation("configured-minimum-not-in-force:"+cls+fmt.Sprintf(":start-%d", start), fmt.Sprintf("start %d: the fan's minimum is %d, configured %d; %s", start, minNow, cfgMin, jsonStr(spec)), spec)
			return
		}
		if has && req < cfgMin {
			ctx.Violation("request-below-minimum:"+cls+fmt.Sprintf(":start-%d", start), fmt.Sprintf("start %d: request %d at curve 0, configured minimum %d; %s", start, req, cfgMin, jsonStr(spec)), spec)
			return
		}
	}
	ctx.Nontrivial(fmt.Sprintf("%s|%d|%d|%d", cls, cfgMin, spec.Levels, spec.Window))
}

// c02TransientCurveError: the real Run() loop of a never-stop hwmon fan whose curve (a PID curve, which reads its
// sensor itself) fails for a moment. The value the fan had before fan2go started lies below the configured minimum.
// Whatever fan2go does about the error - end regulation of the fan, or carry on - a run that continues must not have
// written a value below the minimum to the fan.
func c02TransientCurveError(ctx *Ctx) {
	r := ctx.Rng
	controller.VerifTimescale = 50
	cfgMin := 80 + r.Intn(100)
	spec := RigSpec{FanKind: "hwmon", SensorKind: "file", CurveKind: pick(r, "pid", "function-linear-pid"), HasEnable: r.Intn(2) == 0, HasRpm: true, NeverStop: true, OrigMode: pick(r, 1, 2), OrigPwm: r.Intn(cfgMin - 20),
		Stored: true, Levels: 0, Window: 3, Theta: 1, Algo: "direct", TempMdeg: 45000, CfgMin: iptr(cfgMin)}
	ctx.LogCase(map[string]interface{}{"class": "transient-curve-error:process-died", "spec": spec})
	rig := newRig(ctx, spec)
	defer rig.close()
	cancel, done, wg := rig.start()
	waitEvals := func(n int64, d time.Duration) bool {
		for t0 := time.Now(); time.Since(t0) < d; time.Sleep(2 * time.Millisecond) {
			if atomic.LoadInt64(&rig.Evals) >= n {
				return true
			}
		}
		return false
	}
	if !waitEvals(12, 60*time.Second) {
		cancel()
		<-done
		wg.Wait()
		ctx.Inconclusive("transient curve error: regulation did not begin: " + jsonStr(spec))
		return
	}
	// the sensor cannot be read for a moment
	d := driver
	d.Mu.Lock()
	saved := d.Rules
	d.Rules = append(append([]*util.VerifRule{}, saved...), &util.VerifRule{Path: rig.SensPath, Op: "r", Action: "fail", Errno: "ENOENT"})
	d.Mu.Unlock()
	time.Sleep(60 * time.Millisecond)
	d.Mu.Lock()
	d.Rules = saved
	d.Mu.Unlock()
	// does the run go on afterwards?
	evalsAfter := atomic.LoadInt64(&rig.Evals)
	continued := false
	select {
	case res := <-done:
		done <- res
	case <-time.After(400 * time.Millisecond):
		continued = atomic.LoadInt64(&rig.Evals) > evalsAfter+5
	}
	cancel()
	select {
	case <-done:
	case <-time.After(60 * time.Second):
		ctx.Inconclusive("transient curve error: controller did not stop: " + jsonStr(spec))
		ctx.Abort = true
		return
	}
	wg.Wait()
	ctx.Eval(1)
	if !continued {
		ctx.Count("transient_curve_error_ended_regulation", 1)
		ctx.Nontrivial("transient-curve-error|ended|" + spec.CurveKind)
		return
	}
	// the run continued: every value written to the fan between the first regulation write and the stop request counts
	ws := rig.pwmWrites()
	for i, ev := range ws {
		if i > 0 && i < len(ws)-2 && ev.Err == "" && ev.Val < cfgMin {
			ctx.Violation("request-below-minimum:during-a-run-that-continues-after-a-curve-error", fmt.Sprintf("write no. %d of %d is %d, configured minimum %d (value before fan2go started: %d); %s", i, len(ws), ev.Val, cfgMin, spec.OrigPwm, jsonStr(spec)), spec)
			return
		}
	}
	ctx.Count("transient_curve_error_run_continued", 1)
	ctx.Nontrivial("transient-curve-error|continued|" + spec.CurveKind)
}

func init() {
	register("C02", func(ctx *Ctx) {
		if ctx.Replay != "" {
			var sc Scenario
			b, err := os.ReadFile(ctx.Replay)
			if err == nil {
				err = json.Unmarshal(b, &sc)
			}
			if err != nil {
				ctx.Inconclusive("cannot read replay: " + err.Error())
				return
			}
			var spec RigSpec
			if json.Unmarshal(b, &spec) == nil && spec.FanKind != "" && spec.CfgMin != nil {
				c02FirstRunSpec(ctx, spec)
				return
			}
			checkC02(ctx, &sc)
			return
		}
		for i, nt := 0, ctx.N(16, 160); i < nt && !ctx.Abort; i++ {
			c02TransientCurveError(ctx)
		}
		n := ctx.N(16000, 200000)
		for i := 0; i < n; i++ {
			sc := genC02(ctx.Rng, pick(ctx.Rng, "hwmon", "hwmon", "hwmon", "file", "sim"))
			if i < 2 {
				ctx.Sample(map[string]interface{}{"fan": sc.Fan, "loop": sc.Loop, "window": sc.Window, "first_steps": sc.Steps[:8], "cycles": len(sc.Steps)})
			}
			checkC02(ctx, sc)
		}
		nc := ctx.N(40, 600)
		for i := 0; i < nc; i++ {
			checkC02(ctx, genC02(ctx.Rng, "cmd"))
		}
		nf := ctx.N(32, 400)
		for i := 0; i < nf && !ctx.Abort; i++ {
			c02FirstRun(ctx)
		}
	})
}
