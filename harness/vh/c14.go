package main

import (
	"bufio"
	"encoding/json"
	"errors"
	"fmt"
	"math"
	"math/rand"
	"os"
	"os/exec"
	"path/filepath"
	"regexp"
	"runtime"
	"sort"
	"strconv"
	"strings"
	"sync"
	"syscall"
	"time"

	"github.com/anishathalye/porcupine"
	"github.com/markusressel/fan2go/internal/persistence"
	bolt "go.etcd.io/bbolt"
)

// C14 — stored fan data round-trips and is isolated per fan and per kind.
//
// modes:
//   (default)  model-based sequential histories against an in-memory model, all keys re-read after every step
//   crash      a worker process is killed at every k-th pwrite64/fdatasync/ftruncate (strace injection) and at
//              random moments; a fresh process dumps the database; in-flight key old-or-new, all others intact
//   lin        concurrent clients (goroutines and processes); history checked with porcupine, partitioned by key
//   worker / prep / dump   helper processes of the above

const absent = "<absent>"

var c14Ids = []string{"fanA", "fanB", "fan/with space", "f", "fanA2"}

type dataFan struct {
	*SimFan
	data map[int]float64
}

func (d *dataFan) GetFanRpmCurveData() *map[int]float64 { return &d.data }

func mkDataFan(id string, data map[int]float64) *dataFan {
	return &dataFan{SimFan: &SimFan{Id: id}, data: data}
}

func canonF(m map[int]float64) string {
	keys := make([]int, 0, len(m))
	for k := range m {
		keys = append(keys, k)
	}
	sort.Ints(keys)
	var sb strings.Builder
	for _, k := range keys {
		fmt.Fprintf(&sb, "%d=%s;", k, strconv.FormatFloat(m[k], 'g', -1, 64))
	}
	return "F{" + sb.String() + "}"
}

func canonI(m map[int]int) string {
	keys := make([]int, 0, len(m))
	for k := range m {
		keys = append(keys, k)
	}
	sort.Ints(keys)
	var sb strings.Builder
	for _, k := range keys {
		fmt.Fprintf(&sb, "%d=%d;", k, m[k])
	}
	return "I{" + sb.String() + "}"
}

func genDataF(r *rand.Rand) map[int]float64 {
	m := map[int]float64{}
	n := r.Intn(12)
	if r.Intn(10) == 0 {
		n = 256
	}
	for i := 0; i < n; i++ {
		k := r.Intn(256)
		if r.Intn(8) == 0 {
			k = pick(r, -1, -300, 1<<40, math.MinInt64, math.MaxInt64)
		}
		m[k] = pick(r, 0.0, 1, 0.5, 1234.5678, 1e308, -1e308, 5e-324, -0.0, float64(r.Intn(5000)), r.NormFloat64()*1000)
	}
	return m
}

func genDataI(r *rand.Rand) map[int]int {
	m := map[int]int{}
	n := r.Intn(12)
	if r.Intn(10) == 0 {
		n = 256
	}
	for i := 0; i < n; i++ {
		k := r.Intn(256)
		if r.Intn(8) == 0 {
			k = pick(r, -1, -300, 1<<40, math.MinInt64, math.MaxInt64)
		}
		m[k] = pick(r, 0, 255, -1, math.MaxInt64, math.MinInt64, r.Intn(256))
	}
	return m
}

// loadAll reads every (kind, id) through the public API. Result values are
// canonical strings or "<absent>" for a load that reported an error.
func loadAll(p persistence.Persistence, ids []string) (map[string]string, string) {
	out := map[string]string{}
	for _, id := range ids {
		var d map[int]float64
		var err error
		if pn, msg := Guard(func() { d, err = p.LoadFanPwmData(mkDataFan(id, nil)) }); pn {
			return nil, "panic in LoadFanPwmData: " + msg
		}
		if err != nil && strings.Contains(err.Error(), "timeout") {
			// nobody else uses this file: an operation of this very process has kept the database locked
			return out, "database-locked: load of data/" + id + " failed with: " + err.Error()
		}
		if err != nil {
			out["data/"+id] = loadErrClass(err)
		} else {
			out["data/"+id] = canonF(d)
		}
		var m map[int]int
		if pn, msg := Guard(func() { m, err = p.LoadFanPwmMap(id) }); pn {
			return nil, "panic in LoadFanPwmMap: " + msg
		}
		if err != nil && strings.Contains(err.Error(), "timeout") {
			return out, "database-locked: load of map/" + id + " failed with: " + err.Error()
		}
		if err != nil {
			out["map/"+id] = loadErrClass(err)
		} else {
			out["map/"+id] = canonI(m)
		}
	}
	return out, ""
}

// loadErrClass: a missing entry must be reported as "not found" (os.ErrNotExist); any other load error is
// something else and never equal to the model's "<absent>".
func loadErrClass(err error) string {
	if errors.Is(err, os.ErrNotExist) {
		return absent
	}
	return "<load-error: " + trunc(err.Error()) + ">"
}

type c14Op struct {
	Op   string          `json:"op"` // save | delete | load | reopen | corrupt
	Kind string          `json:"kind,omitempty"`
	Id   string          `json:"id,omitempty"`
	F    map[int]float64 `json:"f,omitempty"`
	I    map[int]int     `json:"i,omitempty"`
	Raw  string          `json:"raw,omitempty"`
}

func applyOp(p persistence.Persistence, op *c14Op) error {
	switch op.Op + "/" + op.Kind {
	case "save/data":
		return p.SaveFanPwmData(mkDataFan(op.Id, op.F))
	case "save/map":
		return p.SaveFanPwmMap(op.Id, op.I)
	case "delete/data":
		return p.DeleteFanPwmData(mkDataFan(op.Id, nil))
	case "delete/map":
		return p.DeleteFanPwmMap(op.Id)
	}
	return nil
}

func plantRaw(dbPath, kind, id, raw string) error {
	db, err := bolt.Open(dbPath, 0600, &bolt.Options{Timeout: 10 * time.Second})
	if err != nil {
		return err
	}
	defer db.Close()
	bucket := persistence.BucketFans
	if kind == "map" {
		bucket = persistence.BucketFanPwmMap
	}
	return db.Update(func(tx *bolt.Tx) error {
		b, err := tx.CreateBucketIfNotExists([]byte(bucket))
		if err != nil {
			return err
		}
		return b.Put([]byte(id), []byte(raw))
	})
}

// rawGet reads an entry's bytes directly from the database file
func rawGet(dbPath, kind, id string) (raw string, present bool, err error) {
	db, err := bolt.Open(dbPath, 0600, &bolt.Options{Timeout: 10 * time.Second, ReadOnly: true})
	if err != nil {
		return "", false, err
	}
	defer db.Close()
	bucket := persistence.BucketFans
	if kind == "map" {
		bucket = persistence.BucketFanPwmMap
	}
	err = db.View(func(tx *bolt.Tx) error {
		b := tx.Bucket([]byte(bucket))
		if b == nil {
			return nil
		}
		if v := b.Get([]byte(id)); v != nil {
			raw, present = string(v), true
		}
		return nil
	})
	return raw, present, err
}

func c14Sequential(ctx *Ctx) {
	r := ctx.Rng
	dbPath := ctx.Path(uniqueId("c14") + ".db")
	defer os.Remove(dbPath)
	ids := c14Ids[:1+r.Intn(len(c14Ids))]
	p := persistence.NewPersistence(dbPath)
	_ = p.Init()
	model := map[string]string{}
	for _, id := range ids {
		model["data/"+id], model["map/"+id] = absent, absent
	}
	var history []c14Op
	nops := 40
	kindsSeen := map[string]bool{}
	for step := 0; step < nops; step++ {
		op := c14Op{Kind: pick(r, "data", "map"), Id: ids[r.Intn(len(ids))]}
		key := op.Kind + "/" + op.Id
		corruptKey := ""
		switch x := r.Intn(20); {
		case x < 9:
			op.Op = "save"
			if op.Kind == "data" {
				op.F = genDataF(r)
			} else {
				op.I = genDataI(r)
			}
		case x < 13:
			op.Op = "delete"
		case x < 16:
			op.Op = "load"
		case x < 18:
			op.Op = "reopen"
		default:
			op.Op = "corrupt"
			op.Raw = pick(r, "garbage", "", "{\"1\": 2, \"x\": 3}", "{\"1\": \"a\"}", "[1,2]", "{", "\x00\x01\x02", "{\"1\": 1e999}", "{\"0\":[1200.5,1210]}", "{\"abc\":1}", "\"text\"", "{\"1\": 1.5e400}", "{\"1\": {\"a\": 1}}")
		}
		history = append(history, op)
		ctx.Eval(1)
		kindsSeen[op.Op] = true
		fail := func(sig, detail string) {
			ctx.Violation(sig, fmt.Sprintf("step %d (%s %s): %s", step, op.Op, key, detail), map[string]interface{}{"ids": ids, "history": history})
		}
		switch op.Op {
		case "save", "delete":
			var err error
			if pn, msg := Guard(func() { err = applyOp(p, &op) }); pn {
				fail("panic:"+op.Op, msg)
				return
			}
			if err != nil {
				fail(op.Op+"-failed", err.Error())
				return
			}
			if op.Op == "delete" {
				model[key] = absent
				// idempotent: a second delete must succeed as well
				if err2 := applyOp(p, &op); err2 != nil {
					fail("delete-not-idempotent", err2.Error())
					return
				}
			} else if op.Kind == "data" {
				model[key] = canonF(op.F)
			} else {
				model[key] = canonI(op.I)
			}
		case "reopen":
			p = persistence.NewPersistence(dbPath)
		case "corrupt":
			if err := plantRaw(dbPath, op.Kind, op.Id, op.Raw); err != nil {
				ctx.Inconclusive("cannot plant corrupt entry: " + err.Error())
				return
			}
			corruptKey = key
			model[key] = absent
			ctx.Count("corrupt_entries_planted", 1)
		}
		// every step: re-load all keys of both kinds and compare with the model
		got, pmsg := loadAll(p, ids)
		if strings.HasPrefix(pmsg, "database-locked") {
			// (the load waited for the lock for the whole of bbolt's one-minute limit: one such result ends the batch)
			sig := "later-load-fails:database-left-locked"
			if corruptKey != "" {
				sig += ":by-the-load-that-met-an-undecodable-entry"
			}
			fail(sig, pmsg)
			ctx.Abort = true
			return
		}
		if pmsg != "" {
			fail("panic:load", pmsg)
			return
		}
		if corruptKey != "" {
			// the first load of an undecodable entry discards it; whatever it returned, later loads must say not found
			if got[corruptKey] != absent {
				ctx.Count("corrupt_first_load_returned_data_without_error", 1)
			}
			// "an undecodable entry is discarded": after the load that met it, the bytes are gone from the file
			if raw, present, rerr := rawGet(dbPath, op.Kind, op.Id); rerr == nil && present {
				fail("corrupt-entry-not-discarded:still-in-the-file:"+op.Kind, fmt.Sprintf("planted %q, after a load the file still holds %q", op.Raw, raw))
				ctx.Abort = true // such loads may each wait for the database lock timeout
				return
			}
			got2, pmsg := loadAll(p, ids)
			if strings.HasPrefix(pmsg, "database-locked") {
				fail("later-load-fails:database-left-locked:by-the-load-that-met-an-undecodable-entry", pmsg)
				ctx.Abort = true
				return
			}
			if pmsg != "" {
				fail("panic:load", pmsg)
				return
			}
			if got2[corruptKey] != absent {
				fail("corrupt-entry-not-discarded:"+op.Kind, fmt.Sprintf("raw %q: second load returned %s", op.Raw, got2[corruptKey]))
				return
			}
			got = got2
		}
		for k, want := range model {
			if got[k] != want {
				sig := "round-trip-mismatch"
				if k != key {
					sig = "other-entry-changed"
					if strings.SplitN(k, "/", 2)[1] == op.Id {
						sig = "other-kind-of-same-fan-changed"
					}
				}
				if want == absent {
					sig += ":expected-not-found"
				}
				fail(sig+":"+op.Op+":"+op.Kind, fmt.Sprintf("key %s: got %s want %s", k, trunc(got[k]), trunc(want)))
				return
			}
		}
	}
	if kindsSeen["save"] && kindsSeen["delete"] {
		ctx.Nontrivial(hash64(jsonStr(history)))
	}
	ctx.SampleKind("sequential", map[string]interface{}{"mode": "sequential", "ids": ids, "first_ops": history[:6]})
}

// ---------- crash points ----------

// worker: performs the ops of a script file against the db; before each op an
// intent line is appended to the log and fsync'ed, after it an ack line.
func c14Worker(ctx *Ctx) {
	runtime.LockOSThread()
	parts := strings.SplitN(ctx.Arg, "|", 3) // db | script | log
	dbPath, script, logPath := parts[0], parts[1], parts[2]
	var ops []c14Op
	b, err := os.ReadFile(script)
	if err == nil {
		err = json.Unmarshal(b, &ops)
	}
	if err != nil {
		fmt.Fprintln(os.Stderr, "worker:", err)
		os.Exit(3)
	}
	lf, err := os.OpenFile(logPath, os.O_CREATE|os.O_WRONLY|os.O_APPEND, 0644)
	if err != nil {
		os.Exit(3)
	}
	p := persistence.NewPersistence(dbPath)
	for i := range ops {
		fmt.Fprintf(lf, "I %d\n", i)
		_ = lf.Sync()
		if err := applyOp(p, &ops[i]); err != nil {
			fmt.Fprintf(lf, "E %d %v\n", i, err)
		} else {
			fmt.Fprintf(lf, "A %d\n", i)
		}
		_ = lf.Sync()
	}
	fmt.Fprintf(lf, "DONE\n")
	_ = lf.Sync()
}

func c14Dump(ctx *Ctx) {
	parts := strings.SplitN(ctx.Arg, "|", 2)
	p := persistence.NewPersistence(parts[0])
	got, pmsg := loadAll(p, c14Ids)
	if pmsg != "" {
		fmt.Println("PANIC " + pmsg)
		return
	}
	b, _ := json.Marshal(got)
	fmt.Println("DUMP " + string(b))
}

func selfExe() string {
	p, err := os.Executable()
	if err != nil {
		return os.Args[0]
	}
	return p
}

func c14RunDump(dbPath string) (map[string]string, string) {
	out, err := exec.Command(selfExe(), "C14", "--mode", "dump", "--scratch", filepath.Dir(dbPath), "--arg", dbPath+"|x").CombinedOutput()
	for _, l := range strings.Split(string(out), "\n") {
		if strings.HasPrefix(l, "DUMP ") {
			m := map[string]string{}
			if json.Unmarshal([]byte(l[5:]), &m) == nil {
				return m, ""
			}
		}
		if strings.HasPrefix(l, "PANIC ") {
			return nil, l
		}
	}
	return nil, fmt.Sprintf("dump failed: %v %s", err, trunc(string(out)))
}

func opValue(op *c14Op) string {
	if op.Op == "delete" {
		return absent
	}
	if op.Kind == "data" {
		return canonF(op.F)
	}
	return canonI(op.I)
}

var straceInjRe = regexp.MustCompile(`(?m)^\d+\s+(pwrite64|fdatasync|ftruncate|fsync)\(`)

func c14Crash(ctx *Ctx) {
	r := ctx.Rng
	if _, err := exec.LookPath("strace"); err != nil {
		ctx.Inconclusive("strace not available")
		return
	}
	nScripts := ctx.N(12, 200)
	for s := 0; s < nScripts; s++ {
		// a script: prep ops (not traced) + traced ops
		var prep, ops []c14Op
		for _, id := range c14Ids[:3] {
			prep = append(prep, c14Op{Op: "save", Kind: "data", Id: id, F: genDataF(r)}, c14Op{Op: "save", Kind: "map", Id: id, I: genDataI(r)})
		}
		for i := 0; i < 3; i++ {
			op := c14Op{Kind: pick(r, "data", "map"), Id: c14Ids[r.Intn(3)], Op: pick(r, "save", "save", "save", "delete")}
			if op.Op == "save" {
				if op.Kind == "data" {
					op.F = genDataF(r)
					if r.Intn(3) == 0 { // a big value forces page splits / file growth
						for k := 0; k < 3000; k++ {
							op.F[k] = float64(k) + 0.5
						}
					}
				} else {
					op.I = genDataI(r)
				}
			}
			ops = append(ops, op)
		}
		dir := ctx.Path(uniqueId("crash"))
		_ = os.MkdirAll(dir, 0755)
		base := filepath.Join(dir, "base.db")
		prepScript := filepath.Join(dir, "prep.json")
		script := filepath.Join(dir, "ops.json")
		_ = os.WriteFile(prepScript, []byte(jsonStr(prep)), 0644)
		_ = os.WriteFile(script, []byte(jsonStr(ops)), 0644)
		if out, err := exec.Command(selfExe(), "C14", "--mode", "worker", "--scratch", dir, "--arg", base+"|"+prepScript+"|"+filepath.Join(dir, "prep.log")).CombinedOutput(); err != nil {
			ctx.Inconclusive("prep worker failed: " + trunc(string(out)))
			return
		}
		baseModel := map[string]string{}
		for _, id := range c14Ids {
			baseModel["data/"+id], baseModel["map/"+id] = absent, absent
		}
		for i := range prep {
			baseModel[prep[i].Kind+"/"+prep[i].Id] = opValue(&prep[i])
		}
		// un-injected traced run: how many syscalls of each kind does the script perform?
		runOne := func(tag string, inject string, killAfter time.Duration) (logLines []string, straceOut string, db string) {
			db = filepath.Join(dir, tag+".db")
			copyFile(base, db)
			logPath := filepath.Join(dir, tag+".log")
			st := filepath.Join(dir, tag+".strace")
			args := []string{"-f", "-o", st, "-e", "trace=pwrite64,fdatasync,ftruncate,fsync"}
			if inject != "" {
				args = append(args, "-e", "inject="+inject)
			}
			args = append(args, selfExe(), "C14", "--mode", "worker", "--scratch", dir, "--arg", db+"|"+script+"|"+logPath)
			cmd := exec.Command("strace", args...)
			if killAfter > 0 {
				cmd.SysProcAttr = &syscall.SysProcAttr{Setpgid: true}
				_ = cmd.Start()
				time.Sleep(killAfter)
				_ = syscall.Kill(-cmd.Process.Pid, syscall.SIGKILL)
				_ = cmd.Wait()
			} else {
				_ = cmd.Run()
			}
			sb, _ := os.ReadFile(st)
			return readLines(logPath), string(sb), db
		}
		lines, straceOut, _ := runOne("count", "", 0)
		if len(lines) == 0 || lines[len(lines)-1] != "DONE" {
			ctx.Inconclusive("un-injected traced worker did not finish: " + trunc(strings.Join(lines, ",")))
			return
		}
		counts := map[string]int{}
		for _, m := range straceInjRe.FindAllStringSubmatch(straceOut, -1) {
			counts[m[1]]++
		}
		verify := func(tag string, lines []string, db string, point string) {
			ctx.Eval(1)
			model := map[string]string{}
			for k, v := range baseModel {
				model[k] = v
			}
			inflight := -1
			for _, l := range lines {
				f := strings.Fields(l)
				if len(f) < 2 {
					continue
				}
				i, _ := strconv.Atoi(f[1])
				switch f[0] {
				case "I":
					inflight = i
				case "A":
					model[ops[i].Kind+"/"+ops[i].Id] = opValue(&ops[i])
					inflight = -1
				case "E":
					inflight = -1
				}
			}
			got, perr := c14RunDump(db)
			replay := map[string]interface{}{"prep": prep, "ops": ops, "kill": point, "log": lines}
			if perr != "" {
				ctx.Violation("crash:database-unreadable-after-kill", point+": "+perr, replay)
				return
			}
			for k, want := range model {
				if inflight >= 0 && k == ops[inflight].Kind+"/"+ops[inflight].Id {
					nv := opValue(&ops[inflight])
					if got[k] != want && got[k] != nv {
						ctx.Violation("crash:in-flight-entry-neither-old-nor-new:"+ops[inflight].Op+":"+ops[inflight].Kind, fmt.Sprintf("%s: key %s got %s old %s new %s", point, k, trunc(got[k]), trunc(want), trunc(nv)), replay)
					}
					continue
				}
				if got[k] != want {
					ctx.Violation("crash:acknowledged-entry-lost-or-changed", fmt.Sprintf("%s: key %s got %s want %s", point, k, trunc(got[k]), trunc(want)), replay)
				}
			}
			if inflight >= 0 {
				ctx.Nontrivial(fmt.Sprintf("s%d|%s|op%d", s, point, inflight))
				ctx.AddSet("crash_points", point)
			} else {
				ctx.Count("kills_between_operations", 1)
			}
		}
		ctx.SampleKind("crash", map[string]interface{}{"mode": "crash", "traced_ops": ops, "syscalls_per_script": counts})
		for _, sc := range []string{"pwrite64", "fdatasync", "ftruncate"} {
			for k := 1; k <= counts[sc]; k++ {
				tag := fmt.Sprintf("%s-%d", sc, k)
				lines, _, db := runOne(tag, fmt.Sprintf("%s:signal=SIGKILL:when=%d", sc, k), 0)
				verify(tag, lines, db, tag)
			}
		}
		// random-time kills
		nk := 6
		if ctx.Thorough() {
			nk = 12
		}
		for k := 0; k < nk; k++ {
			tag := fmt.Sprintf("time-%d", k)
			lines, _, db := runOne(tag, "", time.Duration(20+r.Intn(120))*time.Millisecond)
			verify(tag, lines, db, "random-time")
		}
		_ = os.RemoveAll(dir)
	}
}

func copyFile(src, dst string) {
	b, err := os.ReadFile(src)
	if err == nil {
		_ = os.WriteFile(dst, b, 0600)
	}
}

// ---------- linearizability ----------

type linIn struct {
	Key   string
	Op    string // save | load | delete
	Value string
}

type linRec struct {
	Client int    `json:"client"`
	Key    string `json:"key"`
	Op     string `json:"op"`
	Value  string `json:"value"`
	Call   int64  `json:"call"`
	Ret    int64  `json:"ret"`
	Out    string `json:"out"`
	Done   bool   `json:"done"`
}

func monoNow() int64 {
	var ts syscall.Timespec
	_ = clockGettimeMonotonic(&ts)
	return ts.Sec*1e9 + ts.Nsec
}

func linClient(p persistence.Persistence, client int, r *rand.Rand, n int, keys []string, emit func(linRec)) {
	// every user of the database initialises it first, as each fan controller does when it starts - next to the
	// controllers that are already loading and saving - and now and then again (a controller restarting)
	_ = p.Init()
	for i := 0; i < n; i++ {
		if r.Intn(12) == 0 {
			_ = p.Init()
		}
		key := keys[r.Intn(len(keys))]
		kind, id := strings.SplitN(key, "/", 2)[0], strings.SplitN(key, "/", 2)[1]
		rec := linRec{Client: client, Key: key}
		switch r.Intn(5) {
		case 0, 1:
			rec.Op = "save"
		case 2:
			rec.Op = "delete"
		default:
			rec.Op = "load"
		}
		// unique values: client id + counter make every write identifiable
		uniq := client*100000 + i
		var f map[int]float64
		var m map[int]int
		if rec.Op == "save" {
			if kind == "data" {
				f = map[int]float64{1: float64(uniq), 2: 0.5}
				rec.Value = canonF(f)
			} else {
				m = map[int]int{1: uniq, 7: 7}
				rec.Value = canonI(m)
			}
		}
		rec.Call = monoNow()
		emit(rec) // call event first (Done=false)
		var err error
		switch rec.Op + "/" + kind {
		case "save/data":
			err = p.SaveFanPwmData(mkDataFan(id, f))
		case "save/map":
			err = p.SaveFanPwmMap(id, m)
		case "delete/data":
			err = p.DeleteFanPwmData(mkDataFan(id, nil))
		case "delete/map":
			err = p.DeleteFanPwmMap(id)
		case "load/data":
			var d map[int]float64
			d, err = p.LoadFanPwmData(mkDataFan(id, nil))
			if err == nil {
				rec.Out = canonF(d)
			} else {
				rec.Out = absent
			}
		case "load/map":
			var d map[int]int
			d, err = p.LoadFanPwmMap(id)
			if err == nil {
				rec.Out = canonI(d)
			} else {
				rec.Out = absent
			}
		}
		if rec.Op != "load" && err != nil {
			rec.Out = "error:" + err.Error()
		}
		rec.Ret = monoNow()
		rec.Done = true
		emit(rec)
	}
}

// linProc is the body of a client process: emits JSON lines on stdout.
func c14LinProc(ctx *Ctx) {
	parts := strings.SplitN(ctx.Arg, "|", 4) // db | client | n | keys(comma)
	client, _ := strconv.Atoi(parts[1])
	n, _ := strconv.Atoi(parts[2])
	keys := strings.Split(parts[3], ",")
	p := persistence.NewPersistence(parts[0])
	w := bufio.NewWriter(os.Stdout)
	linClient(p, client, rand.New(rand.NewSource(ctx.Seed*977+int64(client))), n, keys, func(rec linRec) {
		b, _ := json.Marshal(rec)
		_, _ = w.Write(append([]byte("LIN "), append(b, '\n')...))
		_ = w.Flush()
	})
}

var linModel = porcupine.Model{
	Partition: func(history []porcupine.Operation) [][]porcupine.Operation {
		byKey := map[string][]porcupine.Operation{}
		for _, op := range history {
			k := op.Input.(linIn).Key
			byKey[k] = append(byKey[k], op)
		}
		var out [][]porcupine.Operation
		for _, v := range byKey {
			out = append(out, v)
		}
		return out
	},
	Init: func() interface{} { return absent },
	Step: func(state, input, output interface{}) (bool, interface{}) {
		in := input.(linIn)
		out := output.(string)
		switch in.Op {
		case "save":
			if out == "?" || out == "" {
				return true, in.Value
			}
			return false, state // a failed save is not expected
		case "delete":
			if out == "?" || out == "" {
				return true, absent
			}
			return false, state
		default:
			if out == "?" {
				return true, state
			}
			return out == state.(string), state
		}
	},
	Equal: func(a, b interface{}) bool { return a.(string) == b.(string) },
}

func c14Lin(ctx *Ctx) {
	r := ctx.Rng
	rounds := ctx.N(16, 400)
	for round := 0; round < rounds; round++ {
		dbPath := ctx.Path(uniqueId("lin") + ".db")
		keys := []string{"data/fanA", "map/fanA", "data/fanB"}[:1+r.Intn(3)]
		nGo := 2 + r.Intn(3)
		nProc := 2 + r.Intn(3)
		opsPer := 12 + r.Intn(10)
		var mu sync.Mutex
		calls := map[string]linRec{} // client/call -> open call
		var done []linRec
		emit := func(rec linRec) {
			mu.Lock()
			defer mu.Unlock()
			id := fmt.Sprintf("%d/%d", rec.Client, rec.Call)
			if rec.Done {
				delete(calls, id)
				done = append(done, rec)
			} else {
				calls[id] = rec
			}
		}
		var wg sync.WaitGroup
		for c := 0; c < nGo; c++ {
			wg.Add(1)
			go func(c int) {
				defer wg.Done()
				p := persistence.NewPersistence(dbPath)
				linClient(p, c, rand.New(rand.NewSource(ctx.Seed*31+int64(round*100+c))), opsPer, keys, emit)
			}(c)
		}
		killed := 0
		for c := 0; c < nProc; c++ {
			wg.Add(1)
			kill := r.Intn(3) == 0
			if kill {
				killed++
			}
			go func(c int, kill bool, delay time.Duration) {
				defer wg.Done()
				cmd := exec.Command(selfExe(), "C14", "--mode", "linproc", "--scratch", ctx.Scratch, "--seed", strconv.FormatInt(ctx.Seed+int64(round), 10), "--arg",
					fmt.Sprintf("%s|%d|%d|%s", dbPath, 100+c, opsPer, strings.Join(keys, ",")))
				stdout, _ := cmd.StdoutPipe()
				if err := cmd.Start(); err != nil {
					return
				}
				if kill {
					go func() {
						time.Sleep(delay)
						_ = cmd.Process.Kill()
					}()
				}
				sc := bufio.NewScanner(stdout)
				sc.Buffer(make([]byte, 1<<20), 1<<20)
				for sc.Scan() {
					l := sc.Text()
					if strings.HasPrefix(l, "LIN ") {
						var rec linRec
						if json.Unmarshal([]byte(l[4:]), &rec) == nil {
							emit(rec)
						}
					}
				}
				_ = cmd.Wait()
			}(c, kill, time.Duration(5+r.Intn(60))*time.Millisecond)
		}
		wg.Wait()
		var maxT int64
		for _, d := range done {
			if d.Ret > maxT {
				maxT = d.Ret
			}
		}
		for _, c := range calls {
			// an open call may have been issued after every completed operation had returned
			if c.Call > maxT {
				maxT = c.Call
			}
		}
		var ops []porcupine.Operation
		clientIdx := map[int]int{}
		cid := func(c int) int {
			if _, ok := clientIdx[c]; !ok {
				clientIdx[c] = len(clientIdx)
			}
			return clientIdx[c]
		}
		for _, d := range done {
			out := d.Out
			ops = append(ops, porcupine.Operation{ClientId: cid(d.Client), Input: linIn{d.Key, d.Op, d.Value}, Call: d.Call, Output: out, Return: d.Ret})
		}
		open := 0
		for _, c := range calls {
			// the client died inside this call: it may still have taken effect, keep it open until the end
			open++
			ops = append(ops, porcupine.Operation{ClientId: cid(c.Client), Input: linIn{c.Key, c.Op, c.Value}, Call: c.Call, Output: "?", Return: maxT + 1 + int64(open)})
		}
		ctx.Eval(int64(len(ops)))
		ctx.Count("lin_operations", int64(len(ops)))
		ctx.Count("lin_open_operations_of_killed_clients", int64(open))
		res, _ := porcupine.CheckOperationsVerbose(linModel, ops, 60*time.Second)
		desc := map[string]interface{}{"mode": "lin", "keys": keys, "goroutine_clients": nGo, "process_clients": nProc, "killed_processes": killed, "operations": len(ops)}
		ctx.SampleKind("lin", desc)
		switch res {
		case porcupine.Illegal:
			sort.Slice(done, func(i, j int) bool { return done[i].Call < done[j].Call })
			var openCalls []linRec
			for _, c := range calls {
				openCalls = append(openCalls, c)
			}
			ctx.Violation("history-not-linearizable", fmt.Sprintf("%v", desc), map[string]interface{}{"desc": desc, "history": done, "open_calls_of_killed_clients": openCalls})
		case porcupine.Unknown:
			ctx.Inconclusive("porcupine timed out on a history of " + strconv.Itoa(len(ops)) + " operations")
		default:
			// distinct interleaving = the observed order of call/return events
			ctx.Nontrivial("lin|" + hash64(orderSignature(done)))
			ctx.Count("lin_histories_ok", 1)
		}
		_ = os.Remove(dbPath)
	}
}

func orderSignature(done []linRec) string {
	type ev struct {
		t int64
		s string
	}
	var evs []ev
	for _, d := range done {
		evs = append(evs, ev{d.Call, fmt.Sprintf("c%d:%s:%s", d.Client, d.Op, d.Key)}, ev{d.Ret, fmt.Sprintf("r%d", d.Client)})
	}
	sort.Slice(evs, func(i, j int) bool { return evs[i].t < evs[j].t })
	var sb strings.Builder
	for _, e := range evs {
		sb.WriteString(e.s + ";")
	}
	return sb.String()
}

// c14SavesQueuedBehindALock: several fan controllers of one daemon store their results at the moment another user
// (a `fan2go fan ... curve` call) holds the database: the saves queue up one after the other, all inside one process
// and - as on a single-core machine - on one scheduler thread. Afterwards every key holds exactly what was saved under
// it.
func c14SavesQueuedBehindALock(ctx *Ctx) {
	old := runtime.GOMAXPROCS(1)
	defer runtime.GOMAXPROCS(old)
	for round := 0; round < 6; round++ {
		dir := ctx.Path(uniqueId("c14queue"))
		_ = os.MkdirAll(dir, 0755)
		dbPath := filepath.Join(dir, "fan2go.db")
		p := persistence.NewPersistence(dbPath)
		_ = p.Init()
		_ = p.SaveFanPwmMap("warmup", map[int]int{0: 0})
		holder, err := bolt.Open(dbPath, 0600, &bolt.Options{Timeout: 5 * time.Second})
		if err != nil {
			ctx.Inconclusive("queued saves: " + err.Error())
			_ = os.RemoveAll(dir)
			return
		}
		type job struct {
			id   string
			data map[int]float64
			m    map[int]int
		}
		var jobs []job
		for k := 0; k < 5; k++ {
			id := fmt.Sprintf("fan%d", k)
			if (k+round)%2 == 0 {
				d := map[int]float64{}
				for i := 0; i < 3+((k*7+round*5)%40); i++ {
					d[i*3] = float64(1000*k + i)
				}
				jobs = append(jobs, job{id: id, data: d})
			} else {
				m := map[int]int{}
				for i := 0; i < 2+((k*11+round*3)%60); i++ {
					m[i] = (i*k + round) % 256
				}
				jobs = append(jobs, job{id: id, m: m})
			}
		}
		var wg sync.WaitGroup
		errs := make([]error, len(jobs))
		for i, j := range jobs {
			wg.Add(1)
			go func(i int, j job) {
				defer wg.Done()
				if j.data != nil {
					errs[i] = p.SaveFanPwmData(mkDataFan(j.id, j.data))
				} else {
					errs[i] = p.SaveFanPwmMap(j.id, j.m)
				}
			}(i, j)
			time.Sleep(15 * time.Millisecond) // the save has reached the lock (or finished its encoding) before the next one begins
		}
		time.Sleep(60 * time.Millisecond)
		_ = holder.Close()
		wg.Wait()
		for i, j := range jobs {
			ctx.Eval(1)
			if errs[i] != nil {
				ctx.Count("queued_saves_that_reported_an_error", 1)
				continue
			}
			var got, want string
			if j.data != nil {
				d, lerr := p.LoadFanPwmData(mkDataFan(j.id, nil))
				got, want = canonF(d), canonF(j.data)
				if lerr != nil {
					got = "error: " + lerr.Error()
				}
			} else {
				d, lerr := p.LoadFanPwmMap(j.id)
				got, want = canonI(d), canonI(j.m)
				if lerr != nil {
					got = "error: " + lerr.Error()
				}
			}
			if got != want {
				ctx.Violation("round-trip-mismatch:saves-queued-behind-a-lock", fmt.Sprintf("five saves for different fans issued 15 ms apart while another user held the database (one scheduler thread): %s holds %s, saved %s", j.id, got, want), nil)
				_ = os.RemoveAll(dir)
				return
			}
		}
		_ = os.RemoveAll(dir)
	}
	ctx.Nontrivial("saves-queued-behind-a-lock")
}

// c14SaveWhileAnUndecodableEntryIsLoaded: a fan's entry is undecodable (a large one, its type error at the very end); one
// user loads it - which reports "not found" and discards it - while another user saves valid data for the same fan and
// kind. A save that returned success is what a later load returns: the discard of the old entry must not take the new
// one with it.
func c14SaveWhileAnUndecodableEntryIsLoaded(ctx *Ctx) {
	var big strings.Builder
	big.WriteString("{")
	for i := 0; i < 400000; i++ {
		fmt.Fprintf(&big, "\"%d\":%d,", i, i%255)
	}
	big.WriteString("\"400000\":\"x\"}")
	for round, kind := range []string{"data", "map", "data", "map", "data", "map"} {
		dir := ctx.Path(uniqueId("c14discard"))
		_ = os.MkdirAll(dir, 0755)
		dbPath := filepath.Join(dir, "fan2go.db")
		p := persistence.NewPersistence(dbPath)
		_ = p.Init()
		_ = p.SaveFanPwmMap("other", map[int]int{0: 0})
		if err := plantRaw(dbPath, kind, "fanx", big.String()); err != nil {
			ctx.Inconclusive("undecodable entry: " + err.Error())
			_ = os.RemoveAll(dir)
			return
		}
		wantF := map[int]float64{0: 0, 100: 1500.5, 255: 3000}
		wantI := map[int]int{0: 0, 128: 130, 255: 255}
		var wg sync.WaitGroup
		var saveErr error
		wg.Add(2)
		go func() {
			defer wg.Done()
			if kind == "data" {
				_, _ = p.LoadFanPwmData(mkDataFan("fanx", nil))
			} else {
				_, _ = p.LoadFanPwmMap("fanx")
			}
		}()
		go func() {
			defer wg.Done()
			time.Sleep(time.Duration(round*7) * time.Millisecond)
			q := persistence.NewPersistence(dbPath) // another user of the same file
			if kind == "data" {
				saveErr = q.SaveFanPwmData(mkDataFan("fanx", wantF))
			} else {
				saveErr = q.SaveFanPwmMap("fanx", wantI)
			}
		}()
		wg.Wait()
		ctx.Eval(1)
		if saveErr != nil {
			ctx.Count("saves_during_a_discard_that_reported_an_error", 1)
			_ = os.RemoveAll(dir)
			if strings.Contains(saveErr.Error(), "timeout") {
				break // (a minute each; what kept the database locked is looked at by the sequential histories)
			}
			continue
		}
		var got, want string
		var lerr error
		if kind == "data" {
			var d map[int]float64
			d, lerr = p.LoadFanPwmData(mkDataFan("fanx", nil))
			got, want = canonF(d), canonF(wantF)
		} else {
			var d map[int]int
			d, lerr = p.LoadFanPwmMap("fanx")
			got, want = canonI(d), canonI(wantI)
		}
		_ = os.RemoveAll(dir)
		if lerr != nil || got != want {
			ctx.Violation("acknowledged-save-lost:during-the-discard-of-an-undecodable-entry:"+kind, fmt.Sprintf("round %d: the save returned nil, the load afterwards returns %q (error %v), saved %q", round, got, lerr, want), nil)
			return
		}
	}
	ctx.Nontrivial("save-during-discard")
}

func init() {
	register("C14", func(ctx *Ctx) {
		switch ctx.Mode {
		case "worker":
			c14Worker(ctx)
		case "dump":
			c14Dump(ctx)
		case "linproc":
			c14LinProc(ctx)
		case "crash":
			c14Crash(ctx)
		case "lin":
			c14Lin(ctx)
		default:
			if ctx.Batch == 0 {
				c14SavesQueuedBehindALock(ctx)
			}
			if ctx.Batch == 1%ctx.Of {
				c14SaveWhileAnUndecodableEntryIsLoaded(ctx)
			}
			n := ctx.N(1200, 30000)
			for i := 0; i < n && !ctx.Abort; i++ {
				c14Sequential(ctx)
			}
		}
	})
}
