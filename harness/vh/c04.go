package main

import (
	"encoding/json"
	"fmt"
	"math/rand"
	"os"
	"path/filepath"
	"strings"
	"time"

	"github.com/markusressel/fan2go/internal"
	"github.com/markusressel/fan2go/internal/configuration"
	"github.com/markusressel/fan2go/internal/controller"
	"github.com/markusressel/fan2go/internal/util"
	"github.com/markusressel/fan2go/internal/sensors"
	"github.com/prometheus/client_golang/prometheus"
	"github.com/spf13/viper"
)

// C04 — constant curve value: the request settles at one target, the same for every algorithm.
//
// Liveness restated as bounded progress in control cycles (virtual time):
//   direct:            settled after 1 cycle
//   rate limit m:      settled within ceil(255/m)+1 cycles, |delta| <= m between consecutive requests,
//                      monotone toward the steady value
//   default PID:       |request - S(c)| <= 1 for every cycle in [N, N+300] with N = 1200, for every start
//                      and after every prior history
// S(c) is the steady request of the plain direct algorithm on the same fan: S(0) = min, S(255) = max,
// non-decreasing.

const c04PidN = 1200

type c04Config struct {
	Min int `json:"min"`
	Max int `json:"max"`
}

// runConstant executes `cycles` control cycles of a fresh controller (device PWM = start) at constant
// curve value c, after an optional prior history; returns the requests.
type c04Run struct {
	Cfg     c04Config `json:"cfg"`
	Loop    LoopSpec  `json:"loop"`
	Start   int       `json:"start"`
	Curve   int       `json:"curve"`
	TickMs  int64     `json:"tickMs"`
	History []int     `json:"history,omitempty"` // curve values of the prior history (run-length encoded: value, count, ...)
	Cycles  int       `json:"cycles"`
}

func (rn *c04Run) exec() (reqs []int, err error) {
	installClock()
	curve := newScriptCurve()
	fan := &SimFan{Id: uniqueId("c04fan"), CurveId: curve.Id, NeverStop: true, Min: rn.Cfg.Min, Max: rn.Cfg.Max, Start: rn.Cfg.Min,
		HasPwm: true, HasRpm: false, HasMode: false, PwmVal: rn.Start}
	ctrl := newController(fan, rn.Loop.build(), newMemPersistence(), identityMap())
	tick := time.Duration(rn.TickMs) * time.Millisecond
	step := func(c int) (int, error) {
		curve.Val = c
		advance(tick)
		if e := ctrl.UpdateFanSpeed(); e != nil {
			return 0, e
		}
		r, _ := ctrl.VerifLastSetPwm()
		return r, nil
	}
	for i := 0; i+1 < len(rn.History); i += 2 {
		for k := 0; k < rn.History[i+1]; k++ {
			if _, e := step(rn.History[i]); e != nil {
				return nil, e
			}
		}
	}
	for k := 0; k < rn.Cycles; k++ {
		r, e := step(rn.Curve)
		if e != nil {
			return nil, e
		}
		reqs = append(reqs, r)
	}
	return reqs, nil
}

func c04Steady(cfg c04Config) ([]int, string) {
	s := make([]int, 256)
	for c := 0; c <= 255; c++ {
		rn := &c04Run{Cfg: cfg, Loop: LoopSpec{Kind: "direct"}, Start: 128, Curve: c, TickMs: 200, Cycles: 3}
		reqs, err := rn.exec()
		if err != nil {
			return nil, err.Error()
		}
		if reqs[0] != reqs[1] || reqs[1] != reqs[2] {
			return nil, fmt.Sprintf("direct algorithm not steady after one cycle at curve %d: %v", c, reqs)
		}
		s[c] = reqs[2]
	}
	return s, ""
}

func c04Direct(ctx *Ctx, cfg c04Config, m int, starts []int, curveStep int) {
	class := fmt.Sprintf("range=%s", rangeClass(cfg))
	S, msg := c04Steady(cfg)
	if msg != "" {
		ctx.Violation("direct-not-steady:"+class, fmt.Sprintf("%+v: %s", cfg, msg), cfg)
		return
	}
	// shape of the steady map
	if S[0] != cfg.Min {
		ctx.Violation("steady(0)!=min:"+class, fmt.Sprintf("%+v: S(0)=%d", cfg, S[0]), cfg)
	}
	if S[255] != cfg.Max {
		ctx.Violation("steady(255)!=max:"+class, fmt.Sprintf("%+v: S(255)=%d", cfg, S[255]), cfg)
	}
	for c := 1; c <= 255; c++ {
		if S[c] < S[c-1] {
			ctx.Violation("steady-map-decreases:"+class, fmt.Sprintf("%+v: S(%d)=%d < S(%d)=%d", cfg, c, S[c], c-1, S[c-1]), cfg)
			break
		}
	}
	ctx.Eval(256)
	if m <= 0 {
		// plain direct: every start, every curve value reaches S(c) in one cycle
		for c := 0; c <= 255; c += curveStep {
			for _, x := range starts {
				rn := &c04Run{Cfg: cfg, Loop: LoopSpec{Kind: "direct"}, Start: x, Curve: c, TickMs: 200, Cycles: 2}
				reqs, err := rn.exec()
				ctx.Eval(1)
				if err != nil || reqs[0] != S[c] || reqs[1] != S[c] {
					ctx.Violation("direct-depends-on-start:"+class, fmt.Sprintf("%s: %v (S=%d) err=%v", jsonStr(rn), reqs, S[c], err), rn)
					return
				}
			}
		}
		ctx.Nontrivial(fmt.Sprintf("direct|%d|%d", cfg.Min, cfg.Max))
		return
	}
	bound := (255+m-1)/m + 1
	worst := 0
	for c := 0; c <= 255; c += curveStep {
		for _, x := range starts {
			rn := &c04Run{Cfg: cfg, Loop: LoopSpec{Kind: "ratelimit", M: m}, Start: x, Curve: c, TickMs: 200, Cycles: bound + 4}
			reqs, err := rn.exec()
			ctx.Eval(int64(len(reqs)))
			if err != nil {
				ctx.Violation("ratelimit-error:"+class, fmt.Sprintf("%s: %v", jsonStr(rn), err), rn)
				return
			}
			mclass := fmt.Sprintf("%s:m=%s", class, mClass(m))
			// (a) settled within the bound, at S(c)
			settled := len(reqs)
			for k := len(reqs) - 1; k >= 0 && reqs[k] == reqs[len(reqs)-1]; k-- {
				settled = k
			}
			final := reqs[len(reqs)-1]
			if settled+1 > bound {
				ctx.Violation("ratelimit-not-settled-within-bound:"+mclass, fmt.Sprintf("%s: still moving in cycle %d > bound %d: ...%v", jsonStr(rn), settled+1, bound, tail(reqs, 8)), rn)
				return
			}
			if final != S[c] {
				ctx.Violation("ratelimit-steady!=direct:"+mclass, fmt.Sprintf("%s: settles at %d, direct algorithm at %d", jsonStr(rn), final, S[c]), rn)
				return
			}
			if settled+1 > worst {
				worst = settled + 1
			}
			// (c) step bound and (d) monotone approach
			dir := 0
			for k := 1; k < len(reqs); k++ {
				d := reqs[k] - reqs[k-1]
				if d > m || d < -m {
					ctx.Violation("ratelimit-step-exceeds-limit:"+mclass, fmt.Sprintf("%s: requests %d -> %d in cycle %d", jsonStr(rn), reqs[k-1], reqs[k], k), rn)
					return
				}
				if d != 0 {
					s := 1
					if d < 0 {
						s = -1
					}
					if dir != 0 && s != dir {
						ctx.Violation("ratelimit-not-monotone:"+mclass, fmt.Sprintf("%s: %v", jsonStr(rn), reqs), rn)
						return
					}
					dir = s
				}
			}
		}
	}
	ctx.Max("max_ratelimit_settle_cycles", int64(worst))
	ctx.Nontrivial(fmt.Sprintf("ratelimit|%d|%d|%d", cfg.Min, cfg.Max, m))
}

func tail(a []int, n int) []int {
	if len(a) > n {
		return a[len(a)-n:]
	}
	return a
}

func rangeClass(cfg c04Config) string {
	if cfg.Min == 0 && cfg.Max == 255 {
		return "full"
	}
	return "partial"
}

func mClass(m int) string {
	switch {
	case m == 1:
		return "1"
	case m <= 10:
		return "2..10"
	case m < 255:
		return "11..254"
	}
	return "255"
}

// c04DirectAfterHistory: the direct algorithm (with and without a per-cycle limit) after a prior history of curve
// values - moves in one direction followed by a small reversal (the final value one request step or one curve step
// away from where the request came to rest), steps, random walks, alternation. The steady request depends on the final
// curve value and the fan's limits alone: S(c), reached within ceil(255/m)+1 cycles.
func c04DirectAfterHistory(ctx *Ctx, cfg c04Config, m int, r *rand.Rand, nRuns int) {
	class := fmt.Sprintf("range=%s", rangeClass(cfg))
	S, msg := c04Steady(cfg)
	if msg != "" {
		return
	}
	// the curve value nearest to c whose steady request differs from S[from] by exactly d (or -1)
	withStep := func(from, d int) int {
		for dist := 1; dist <= 255; dist++ {
			for _, c := range []int{from + dist*sign(d), from - dist*sign(d)} {
				if c >= 0 && c <= 255 && S[c]-S[from] == d {
					return c
				}
			}
		}
		return -1
	}
	for i := 0; i < nRuns; i++ {
		loop := LoopSpec{Kind: "direct"}
		bound := 1
		if i%2 == 1 && m > 0 {
			loop = LoopSpec{Kind: "ratelimit", M: m}
			bound = (255+m-1)/m + 1
		}
		rn := &c04Run{Cfg: cfg, Loop: loop, Start: r.Intn(256), TickMs: 200, Cycles: bound + 6}
		hclass := ""
		settle := bound + 2
		switch i % 4 {
		case 0, 1: // a move in one direction, then a reversal by one request step
			hclass = "move-then-one-request-step-back"
			c0, c1 := r.Intn(256), r.Intn(256)
			d := 1
			if c1 > c0 {
				d = -1
			}
			rn.History = []int{c0, settle, c1, settle}
			rn.Curve = withStep(c1, d)
			if rn.Curve < 0 {
				continue
			}
		case 2: // ... by one curve step, after several moves in that direction
			hclass = "moves-then-one-curve-step-back"
			c := r.Intn(256)
			up := r.Intn(2) == 0
			for k := 0; k < 4; k++ {
				rn.History = append(rn.History, c, 1+r.Intn(settle))
				if up {
					c += r.Intn(40)
				} else {
					c -= r.Intn(40)
				}
				c = int(util.Coerce(float64(c), 0, 255))
			}
			rn.History = append(rn.History, c, settle)
			if up {
				rn.Curve = c - 1
			} else {
				rn.Curve = c + 1
			}
			rn.Curve = int(util.Coerce(float64(rn.Curve), 0, 255))
		default:
			hclass = "random-walk"
			cur := r.Intn(256)
			for k := 0; k < 60; k++ {
				cur = int(util.Coerce(float64(cur+r.Intn(7)-3), 0, 255))
				rn.History = append(rn.History, cur, 1+r.Intn(3))
			}
			rn.Curve = int(util.Coerce(float64(cur+pick(r, -1, 1, 0, -2, 2)), 0, 255))
		}
		reqs, err := rn.exec()
		ctx.Eval(int64(len(reqs)))
		if err != nil {
			ctx.Violation("direct-after-history:error:"+class, fmt.Sprintf("%s: %v", jsonStr(rn), err), rn)
			return
		}
		final := reqs[len(reqs)-1]
		if final != S[rn.Curve] || reqs[bound-1] != S[rn.Curve] {
			ctx.Violation(fmt.Sprintf("%s-steady-value-depends-on-history:%s:history=%s", loop.Kind, class, hclass), fmt.Sprintf("%s: requests %v at constant curve %d, steady value without history %d", jsonStr(rn), reqs, rn.Curve, S[rn.Curve]), rn)
			return
		}
		ctx.Nontrivial(fmt.Sprintf("after-history|%s|%d|%d|%s|%d", loop.Kind, cfg.Min, cfg.Max, hclass, rn.Curve))
	}
}

func sign(d int) int {
	if d < 0 {
		return -1
	}
	return 1
}

func c04Pid(ctx *Ctx, cfg c04Config, r *rand.Rand, nRuns int) {
	class := fmt.Sprintf("range=%s", rangeClass(cfg))
	S, msg := c04Steady(cfg)
	if msg != "" {
		return
	}
	for i := 0; i < nRuns; i++ {
		tick := pick(r, int64(50), 200, 1000, 2000)
		c := pick(r, 0, 255, 1, 254, 128, r.Intn(256), r.Intn(256))
		rn := &c04Run{Cfg: cfg, Loop: LoopSpec{Kind: "pid", P: 0.3, I: 0.02, D: 0.005}, Start: r.Intn(256), Curve: c, TickMs: tick, Cycles: c04PidN + 300}
		hclass := "none"
		switch r.Intn(6) {
		case 0:
		case 1: // hours of idling at an extreme
			hclass = "idle-at-extreme"
			hours := pick(r, 1, 4, 24)
			n := int(int64(hours) * 3600 * 1000 / tick)
			if n > 400000 {
				n = 400000
			}
			rn.History = []int{pick(r, 0, 255), n}
		case 2: // alternating extremes
			hclass = "alternating"
			for k := 0; k < 200; k++ {
				rn.History = append(rn.History, (k%2)*255, 1+r.Intn(30))
			}
		case 3: // random walk
			hclass = "random-walk"
			cur := r.Intn(256)
			for k := 0; k < 300; k++ {
				cur += r.Intn(41) - 20
				if cur < 0 {
					cur = 0
				}
				if cur > 255 {
					cur = 255
				}
				rn.History = append(rn.History, cur, 1+r.Intn(5))
			}
		default: // steps
			hclass = "steps"
			for k := 0; k < 20; k++ {
				rn.History = append(rn.History, r.Intn(256), 1+r.Intn(400))
			}
		}
		reqs, err := rn.exec()
		ctx.Eval(int64(len(reqs)))
		if err != nil {
			ctx.Violation("pid-error:"+class, fmt.Sprintf("%s: %v", jsonStr(rn), err), rn)
			return
		}
		enter := -1
		for k := len(reqs) - 1; k >= 0; k-- {
			d := reqs[k] - S[c]
			if d > 1 || d < -1 {
				enter = k + 1
				break
			}
		}
		if enter < 0 {
			enter = 0
		}
		ctx.Max("max_pid_cycles_until_within_1", int64(enter))
		if enter > c04PidN {
			// which clause failed?
			last := reqs[len(reqs)-1]
			sig := "pid-not-settled-within-N"
			d := last - S[c]
			if reqs[len(reqs)-1] == reqs[len(reqs)-50] && (d > 1 || d < -1) {
				sig = "pid-steady!=direct"
			}
			ctx.Violation(fmt.Sprintf("%s:%s:history=%s", sig, class, hclass), fmt.Sprintf("%s: request %d in cycle %d, direct steady value %d; last requests %v",
				jsonStr(c04Brief(rn)), reqs[enter-1], enter, S[c], tail(reqs, 6)), rn)
			return
		}
		ctx.Nontrivial(fmt.Sprintf("pid|%d|%d|%d|%d|%s|%d", cfg.Min, cfg.Max, tick, c, hclass, rn.Start))
		ctx.AddSet("pid_history_classes", hclass)
	}
}

func c04Brief(rn *c04Run) interface{} {
	h := rn.History
	if len(h) > 8 {
		h = h[:8]
	}
	return map[string]interface{}{"cfg": rn.Cfg, "start": rn.Start, "curve": rn.Curve, "tickMs": rn.TickMs, "history_head": h}
}

func genC04Config(r *rand.Rand, i int) c04Config {
	fixed := []c04Config{{0, 255}, {50, 200}, {0, 100}, {100, 255}, {254, 255}, {0, 1}, {30, 31}, {1, 254}}
	if i < len(fixed) {
		return fixed[i]
	}
	for {
		a, b := r.Intn(256), r.Intn(256)
		if a > b {
			a, b = b, a
		}
		if a < b {
			return c04Config{a, b}
		}
	}
}

// c04ConfigPath: the algorithms as a user gets them - through the configuration file. Every documented way of
// selecting an algorithm (no key = default PID, the strings "pid" / "direct", the object forms) is loaded by the real
// loader, turned into a controller by the daemon's own initializeFanControllers, and must settle like the reference.
func c04ConfigPath(ctx *Ctx, idx int) {
	r := ctx.Rng
	dir := ctx.Path(fmt.Sprintf("c04cfg-%d", idx))
	_ = os.MkdirAll(dir, 0755)
	defer os.RemoveAll(dir)
	pfx := fmt.Sprintf("c04b%dn%d-", ctx.Batch, idx)
	forms := []struct{ name, yaml, kind string }{
		{"absent", "", "pid"},
		{"string-pid", "    controlAlgorithm: pid\n", "pid"},
		{"object-pid-defaults", "    controlAlgorithm:\n      pid:\n        p: 0.3\n        i: 0.02\n        d: 0.005\n", "pid"},
		{"string-direct", "    controlAlgorithm: direct\n", "direct"},
		{"object-direct-limit", "    controlAlgorithm:\n      direct:\n        maxPwmChangePerCycle: 7\n", "ratelimit"},
		{"deprecated-controlLoop", "    controlLoop:\n      p: 0.3\n      i: 0.02\n      d: 0.005\n", "pid"},
	}
	var sb strings.Builder
	sensorFile := filepath.Join(dir, "sensor")
	_ = os.WriteFile(sensorFile, []byte("50000\n"), 0644)
	fmt.Fprintf(&sb, "dbPath: %s/fan2go.db\ncontrollerAdjustmentTickRate: 20ms\nsensors:\n  - id: %ss\n    file:\n      path: %s\ncurves:\n  - id: %sc\n    linear:\n      sensor: %ss\n      min: 0\n      max: 100\nfans:\n", dir, pfx, sensorFile, pfx, pfx)
	for i, f := range forms {
		ff := filepath.Join(dir, fmt.Sprintf("fan%d", i))
		_ = os.WriteFile(ff, []byte("0\n"), 0644)
		fmt.Fprintf(&sb, "  - id: %sf%d\n    file:\n      path: %s\n    curve: %sc\n%s", pfx, i, ff, pfx, f.yaml)
	}
	cfgPath := filepath.Join(dir, "fan2go.yaml")
	_ = os.WriteFile(cfgPath, []byte(sb.String()), 0644)
	viper.Reset()
	configuration.InitConfig(cfgPath)
	if err := viper.ReadInConfig(); err != nil {
		ctx.Inconclusive("C04 config path: " + err.Error())
		return
	}
	configuration.LoadConfig()
	if err := configuration.Validate(cfgPath); err != nil {
		ctx.Violation("config-path:documented-algorithm-form-rejected", err.Error(), sb.String())
		return
	}
	reg := prometheus.NewRegistry()
	prometheus.DefaultRegisterer, prometheus.DefaultGatherer = reg, reg
	installClock()
	clockAutoTick = 0
	fanMap, err := internal.InitializeObjects()
	if err != nil {
		ctx.Inconclusive("C04 config path: " + err.Error())
		return
	}
	ctrls, err := internal.VerifInitializeFanControllers(newMemPersistence(), fanMap)
	if err != nil {
		ctx.Inconclusive("C04 config path: " + err.Error())
		return
	}
	sensor, _ := sensors.GetSensor(pfx + "s")
	tick := pick(r, int64(50), 200, 200, 1000)
	curveVal := pick(r, 0, 255, 128, r.Intn(256))
	temp := float64(curveVal) / 255 * 100000
	for i, f := range forms {
		var ctrl *controller.DefaultFanController
		for fan, c := range ctrls {
			if fan.GetId() == fmt.Sprintf("%sf%d", pfx, i) {
				ctrl = c.(*controller.DefaultFanController)
			}
		}
		if ctrl == nil {
			ctx.Inconclusive("C04 config path: controller missing for form " + f.name)
			return
		}
		ctrl.VerifSetPwmMap(identityMap())
		// a history first: the curve somewhere else for a while
		sensor.SetMovingAvg(float64(r.Intn(100000)))
		var reqs []int
		cycles := c04PidN + 300
		for k := 0; k < 200+cycles; k++ {
			if k == 200 {
				sensor.SetMovingAvg(temp)
			}
			advance(time.Duration(tick) * time.Millisecond)
			if f.kind == "ratelimit" && (k == 3 || k == 203) {
				// a cycle that comes late (slow tool, loaded machine, process stopped for a moment): 3.5 update periods of real time
				time.Sleep(70 * time.Millisecond)
			}
			prevReq, hadPrev := ctrl.VerifLastSetPwm()
			if e := ctrl.UpdateFanSpeed(); e != nil {
				ctx.Violation("config-path:error:"+f.name, e.Error(), sb.String())
				return
			}
			v, _ := ctrl.VerifLastSetPwm()
			if f.kind == "ratelimit" && hadPrev && (v-prevReq > 7 || prevReq-v > 7) {
				ctx.Violation("config-path:step-exceeds-maxPwmChangePerCycle:"+f.name, fmt.Sprintf("cycle %d: request %d -> %d with maxPwmChangePerCycle: 7 (controllerAdjustmentTickRate 20ms; cycles 3 and 203 come 70 ms after their predecessor)", k, prevReq, v), sb.String())
				return
			}
			if k >= 200 {
				reqs = append(reqs, v)
			}
		}
		ctx.Eval(int64(len(reqs)))
		// the linear curve truncates: its value for this temperature
		want := int(temp / 100000 * 255)
		if temp >= 100000 {
			want = 255
		}
		desc := map[string]interface{}{"kind": "config-path", "form": f.name, "tickMs": tick, "curve": want}
		ctx.SampleKind("config-path", desc)
		lo := c04PidN
		if f.kind == "direct" {
			lo = 1
		} else if f.kind == "ratelimit" {
			lo = 255/7 + 2
		}
		for k := lo; k < len(reqs); k++ {
			d := reqs[k] - want
			if d > 1 || d < -1 {
				ctx.Violation("config-path:not-settled:"+f.name, fmt.Sprintf("%v: request %d in cycle %d, steady value %d; last requests %v", desc, reqs[k], k, want, tail(reqs, 8)), desc)
				break
			}
		}
		ctx.Nontrivial(fmt.Sprintf("config-path|%s|%d|%d", f.name, tick, want))
	}
}

// c04NarrowRangeLimit: hwmon fans with a configured range narrower than 0..255 and a per-cycle limit, built the way
// the daemon builds them (configuration file, loader, hwmon detection on a fake tree, initializeFanControllers). The
// curve jumps from its lowest to its highest value and back: no two consecutive requests differ by more than the
// limit, and the request arrives at the fan's maximum / minimum.
func c04NarrowRangeLimit(ctx *Ctx, idx int) {
	r := ctx.Rng
	dir := ctx.Path(fmt.Sprintf("c04narrow-%d", idx))
	_ = os.MkdirAll(dir, 0755)
	defer os.RemoveAll(dir)
	root := filepath.Join(dir, "hwmon")
	t := &c17Tree{Chips: []c17Chip{{Dir: "hwmon0", Name: "nct6798", Fans: []int{1, 2, 3, 4}, Temps: []int{1}}}, Order: []string{"hwmon0"}}
	t.materialise(root)
	oldRoot, hadRoot := os.LookupEnv("FAN2GO_VERIF_HWMON_ROOT")
	_ = os.Setenv("FAN2GO_VERIF_HWMON_ROOT", root)
	defer func() {
		if hadRoot {
			_ = os.Setenv("FAN2GO_VERIF_HWMON_ROOT", oldRoot)
		} else {
			_ = os.Unsetenv("FAN2GO_VERIF_HWMON_ROOT")
		}
	}()
	pfx := fmt.Sprintf("c04n%dn%d-", ctx.Batch, idx)
	type nf struct{ min, max, limit int }
	var fansCfg []nf
	for k := 0; k < 4; k++ {
		mx := pick(r, 100, 200, 150, 60+r.Intn(190))
		mn := 0
		if r.Intn(2) == 0 {
			mn = r.Intn(mx / 2)
		}
		fansCfg = append(fansCfg, nf{mn, mx, pick(r, 1, 2, 3, 5, 10, 1+r.Intn(20))})
	}
	var sb strings.Builder
	sensorFile := filepath.Join(dir, "sensor")
	_ = os.WriteFile(sensorFile, []byte("0\n"), 0644)
	fmt.Fprintf(&sb, "dbPath: %s/fan2go.db\nsensors:\n  - id: %ss\n    file:\n      path: %s\ncurves:\n  - id: %sc\n    linear:\n      sensor: %ss\n      min: 0\n      max: 100\nfans:\n", dir, pfx, sensorFile, pfx, pfx)
	for k, f := range fansCfg {
		fmt.Fprintf(&sb, "  - id: %sf%d\n    hwmon:\n      platform: nct6798\n      rpmChannel: %d\n    curve: %sc\n    maxPwm: %d\n", pfx, k, k+1, pfx, f.max)
		if f.min > 0 {
			fmt.Fprintf(&sb, "    neverStop: true\n    minPwm: %d\n", f.min)
		}
		fmt.Fprintf(&sb, "    controlAlgorithm:\n      direct:\n        maxPwmChangePerCycle: %d\n", f.limit)
	}
	cfgPath := filepath.Join(dir, "fan2go.yaml")
	_ = os.WriteFile(cfgPath, []byte(sb.String()), 0644)
	viper.Reset()
	configuration.InitConfig(cfgPath)
	if err := viper.ReadInConfig(); err != nil {
		ctx.Inconclusive("C04 narrow range: " + err.Error())
		return
	}
	configuration.LoadConfig()
	if err := configuration.Validate(cfgPath); err != nil {
		ctx.Violation("narrow-range:documented-configuration-rejected", err.Error(), sb.String())
		return
	}
	reg := prometheus.NewRegistry()
	prometheus.DefaultRegisterer, prometheus.DefaultGatherer = reg, reg
	installClock()
	clockAutoTick = 0
	fanMap, err := internal.InitializeObjects()
	if err != nil {
		ctx.Inconclusive("C04 narrow range: " + err.Error())
		return
	}
	ctrls, err := internal.VerifInitializeFanControllers(newMemPersistence(), fanMap)
	if err != nil {
		ctx.Inconclusive("C04 narrow range: " + err.Error())
		return
	}
	sensor, _ := sensors.GetSensor(pfx + "s")
	for k, f := range fansCfg {
		var ctrl *controller.DefaultFanController
		for fan, c := range ctrls {
			if fan.GetId() == fmt.Sprintf("%sf%d", pfx, k) {
				ctrl = c.(*controller.DefaultFanController)
			}
		}
		if ctrl == nil {
			ctx.Inconclusive("C04 narrow range: controller missing")
			return
		}
		ctrl.VerifSetPwmMap(identityMap())
		desc := map[string]interface{}{"kind": "narrow-range", "min": f.min, "max": f.max, "maxPwmChangePerCycle": f.limit}
		ctx.SampleKind("narrow-range", desc)
		var last int
		for phase, temp := range []float64{0, 100000, 0} {
			sensor.SetMovingAvg(temp)
			for c := 0; c < 255/f.limit+4; c++ {
				advance(200 * time.Millisecond)
				ctrl.VerifMeasureRpm() // (the tachometer file says the fan spins)
				prev, had := ctrl.VerifLastSetPwm()
				if e := ctrl.UpdateFanSpeed(); e != nil {
					ctx.Violation("narrow-range:error", e.Error(), sb.String())
					return
				}
				last, _ = ctrl.VerifLastSetPwm()
				ctx.Eval(1)
				if had && phase > 0 && (last-prev > f.limit || prev-last > f.limit) {
					ctx.Violation("narrow-range:step-exceeds-maxPwmChangePerCycle", fmt.Sprintf("%v: request %d -> %d in one cycle", desc, prev, last), desc)
					return
				}
			}
			want := f.min
			if phase == 1 {
				want = f.max
			}
			if last != want {
				ctx.Violation("narrow-range:steady-value-is-not-the-fan-limit", fmt.Sprintf("%v: phase %d settles at %d, expected %d", desc, phase, last, want), desc)
				return
			}
		}
		ctx.Nontrivial(fmt.Sprintf("narrow-range|%d|%d|%d", f.min, f.max, f.limit))
	}
}

// c04SeveralFans: several fans of one configuration that all rely on the same (default or explicit) algorithm form,
// each on its own curve and starting PWM, ticking at (almost) the same moment as the daemon's tickers do. Every fan must
// settle at its own steady value exactly as it does alone.
func c04SeveralFans(ctx *Ctx, idx int) {
	r := ctx.Rng
	dir := ctx.Path(fmt.Sprintf("c04multi-%d", idx))
	_ = os.MkdirAll(dir, 0755)
	defer os.RemoveAll(dir)
	pfx := fmt.Sprintf("c04m%dn%d-", ctx.Batch, idx)
	form := pick(r, []string{"absent", ""}, []string{"absent", ""}, []string{"string-pid", "    controlAlgorithm: pid\n"},
		[]string{"object-direct-limit", "    controlAlgorithm:\n      direct:\n        maxPwmChangePerCycle: 7\n"})
	n := 2 + r.Intn(2)
	var sb strings.Builder
	fmt.Fprintf(&sb, "dbPath: %s/fan2go.db\nsensors:\n", dir)
	for i := 0; i < n; i++ {
		sf := filepath.Join(dir, fmt.Sprintf("sensor%d", i))
		_ = os.WriteFile(sf, []byte("50000\n"), 0644)
		fmt.Fprintf(&sb, "  - id: %ss%d\n    file:\n      path: %s\n", pfx, i, sf)
	}
	sb.WriteString("curves:\n")
	for i := 0; i < n; i++ {
		fmt.Fprintf(&sb, "  - id: %sc%d\n    linear:\n      sensor: %ss%d\n      min: 0\n      max: 100\n", pfx, i, pfx, i)
	}
	sb.WriteString("fans:\n")
	starts := make([]int, n)
	for i := 0; i < n; i++ {
		ff := filepath.Join(dir, fmt.Sprintf("fan%d", i))
		starts[i] = r.Intn(256)
		_ = os.WriteFile(ff, []byte(fmt.Sprintf("%d\n", starts[i])), 0644)
		fmt.Fprintf(&sb, "  - id: %sf%d\n    file:\n      path: %s\n    curve: %sc%d\n%s", pfx, i, ff, pfx, i, form[1])
	}
	cfgPath := filepath.Join(dir, "fan2go.yaml")
	_ = os.WriteFile(cfgPath, []byte(sb.String()), 0644)
	viper.Reset()
	configuration.InitConfig(cfgPath)
	if err := viper.ReadInConfig(); err != nil {
		ctx.Inconclusive("C04 several fans: " + err.Error())
		return
	}
	configuration.LoadConfig()
	if err := configuration.Validate(cfgPath); err != nil {
		ctx.Violation("several-fans:documented-configuration-rejected", err.Error(), sb.String())
		return
	}
	reg := prometheus.NewRegistry()
	prometheus.DefaultRegisterer, prometheus.DefaultGatherer = reg, reg
	installClock()
	clockAutoTick = 0
	fanMap, err := internal.InitializeObjects()
	if err != nil {
		ctx.Inconclusive("C04 several fans: " + err.Error())
		return
	}
	ctrlMap, err := internal.VerifInitializeFanControllers(newMemPersistence(), fanMap)
	if err != nil {
		ctx.Inconclusive("C04 several fans: " + err.Error())
		return
	}
	ctrls := make([]*controller.DefaultFanController, n)
	want := make([]int, n)
	for i := 0; i < n; i++ {
		for fan, c := range ctrlMap {
			if fan.GetId() == fmt.Sprintf("%sf%d", pfx, i) {
				ctrls[i] = c.(*controller.DefaultFanController)
			}
		}
		if ctrls[i] == nil {
			ctx.Inconclusive("C04 several fans: controller missing")
			return
		}
		ctrls[i].VerifSetPwmMap(identityMap())
		cv := pick(r, 0, 255, 40, 128, 200, r.Intn(256))
		temp := float64(cv) / 255 * 100000
		sn, _ := sensors.GetSensor(fmt.Sprintf("%ss%d", pfx, i))
		sn.SetMovingAvg(temp)
		want[i] = int(temp / 100000 * 255)
	}
	tick := pick(r, int64(50), 200, 200, 1000)
	gap := pick(r, 20*time.Microsecond, 200*time.Microsecond, 2*time.Millisecond)
	cycles := c04PidN + 300
	reqs := make([][]int, n)
	for k := 0; k < cycles; k++ {
		advance(time.Duration(tick) * time.Millisecond)
		for i := 0; i < n; i++ {
			advance(gap) // the tickers of all controllers fire together; the controllers run one after the other
			if e := ctrls[i].UpdateFanSpeed(); e != nil {
				ctx.Violation("several-fans:error:"+form[0], e.Error(), sb.String())
				return
			}
			v, _ := ctrls[i].VerifLastSetPwm()
			reqs[i] = append(reqs[i], v)
		}
	}
	ctx.Eval(int64(cycles * n))
	lo := c04PidN
	if form[0] == "object-direct-limit" {
		lo = 255/7 + 2
	}
	desc := map[string]interface{}{"kind": "several-fans", "form": form[0], "fans": n, "tickMs": tick, "gap": gap.String(), "steady": want, "starts": starts}
	ctx.SampleKind("several-fans", desc)
	for i := 0; i < n; i++ {
		for k := lo; k < cycles; k++ {
			if d := reqs[i][k] - want[i]; d > 1 || d < -1 {
				ctx.Violation("several-fans:not-settled:"+form[0], fmt.Sprintf("%v: fan %d requests %d in cycle %d, its steady value is %d; last requests %v", desc, i, reqs[i][k], k, want[i], tail(reqs[i], 8)), desc)
				return
			}
		}
	}
	ctx.Nontrivial(fmt.Sprintf("several-fans|%s|%d|%d|%s|%v", form[0], n, tick, gap, want))
}

// c04RpmGlitch: a spinning never-stop fan with a tachometer at a constant curve value; now and then one RPM poll fails
// (I/O error, empty or garbage content). A failed poll says nothing about the fan: the request stays at the steady value.
func c04RpmGlitch(ctx *Ctx, r *rand.Rand) {
	for _, kind := range []string{"file", "file-home", "hwmon"} {
		k, home := homeKind(r, kind)
		c := pick(r, 0, 0, 1, 37, 128, 255)
		fan := FanSpec{Kind: k, HomePath: home, NeverStop: true, HasRpm: true, HasPwm: true, HasEnable: kind == "hwmon"}
		want := c
		if k == "hwmon" {
			mn, mx := 20+r.Intn(60), 150+r.Intn(100)
			fan.CfgMin, fan.CfgMax = iptr(mn), iptr(mx)
			want = mn + int(float64(c)/255*float64(mx-mn))
		}
		loop := pick(r, LoopSpec{Kind: "direct"}, LoopSpec{Kind: "ratelimit", M: 5 + r.Intn(30)})
		// windows of 5 and more: fan2go feeds a failed poll into the RPM average as a 0 sample, which with a window of 1-2
		// legitimately looks like a stall; with 5 and more a spinning fan stays far above the stall threshold
		sc := &Scenario{Fan: fan, Plant: PlantSpec{Kind: "const", Const: 1500}, Map: MapSpec{Kind: "identity"}, Loop: loop, Window: pick(r, 5, 10, 20), InitPwm: r.Intn(256), InitMode: 1, PriorRpm: 1500}
		glitches := 0
		for i := 0; i < 260; i++ {
			st := CycleStep{Curve: c, DtMs: 200, Polls: 1}
			if i > 60 && r.Intn(25) == 0 {
				st.PollFault = &FaultSpec{Target: "rpm", Op: "r"}
				switch r.Intn(3) {
				case 0:
					st.PollFault.Action, st.PollFault.Errno = "fail", "EIO"
				case 1:
					st.PollFault.Action, st.PollFault.Raw = "content", ""
				default:
					st.PollFault.Action, st.PollFault.Raw = "content", "n/a\n"
				}
				glitches++
			}
			sc.Steps = append(sc.Steps, st)
		}
		bad := false
		runScenario(ctx, sc, func(w *World, rec *CycleRecord) bool {
			ctx.Eval(1)
			if rec.Err != nil || rec.Panic != "" {
				ctx.Violation("rpm-glitch:control-error-at-constant-curve:"+kind, fmt.Sprintf("cycle %d: %v %s", rec.Idx, rec.Err, firstLine(rec.Panic)), sc)
				bad = true
				return true
			}
			if rec.Idx >= 60 && rec.HasRequest && rec.Request != want {
				ctx.Violation("rpm-glitch:request-leaves-steady-value:"+kind+":"+loop.Kind, fmt.Sprintf("cycle %d: request %d, steady value %d (curve %d, the fan reports 1500 RPM whenever it can be read, %d failed polls so far in the plan)", rec.Idx, rec.Request, want, c, glitches), sc)
				bad = true
				return true
			}
			return false
		})
		if !bad && glitches > 0 {
			ctx.Nontrivial(fmt.Sprintf("rpm-glitch|%s|%s|%d|%d", kind, loop.Kind, c, glitches))
		}
	}
}

// c04StoppingFan: a fan that is allowed to stop (neverStop off) and has a tachometer; below a threshold it really
// stops (0 RPM). With a constant curve value the request must still settle at S(c) and stay there however long the
// curve idles - the stall protection is for never-stop fans only.
func c04StoppingFan(ctx *Ctx, cfg c04Config, r *rand.Rand) {
	S, msg := c04Steady(cfg)
	if msg != "" {
		return
	}
	for _, loop := range []LoopSpec{{Kind: "direct"}, {Kind: "ratelimit", M: 1 + r.Intn(20)}} {
		c := pick(r, 0, 0, 1, r.Intn(64))
		theta := S[c] + 1 + r.Intn(40) // the fan stands still at the steady request
		sc := &Scenario{Fan: FanSpec{Kind: "sim", NeverStop: false, HasRpm: true, HasPwm: true, HasEnable: false, SimMin: cfg.Min, SimMax: cfg.Max},
			Plant: PlantSpec{Kind: "threshold", Theta: theta, MaxRpm: 2000}, Map: MapSpec{Kind: "identity"}, Loop: loop, Window: pick(r, 1, 3, 10), InitPwm: r.Intn(256), PriorRpm: 1500}
		for k := 0; k < 600; k++ {
			sc.Steps = append(sc.Steps, CycleStep{Curve: c, DtMs: 200, Polls: 1})
		}
		settleBound := 300
		bad := false
		runScenario(ctx, sc, func(w *World, rec *CycleRecord) bool {
			ctx.Eval(1)
			if rec.Err != nil || rec.Panic != "" {
				ctx.Violation("stopping-fan:control-error-at-constant-curve:"+loop.Kind, fmt.Sprintf("cycle %d: %v %s; %s", rec.Idx, rec.Err, firstLine(rec.Panic), jsonStr(sc.Fan)), sc)
				bad = true
				return true
			}
			// S(c) for a fan that may stop is computed with minimum 0
			want := int(float64(c) / 255 * float64(cfg.Max))
			if rec.Idx >= settleBound && rec.Request != want {
				ctx.Violation("stopping-fan:request-leaves-steady-value:"+loop.Kind, fmt.Sprintf("cycle %d: request %d, steady value %d (curve %d, fan max %d, fan stands still below PWM %d, window %d)", rec.Idx, rec.Request, want, c, cfg.Max, theta, sc.Window), sc)
				bad = true
				return true
			}
			return false
		})
		if !bad {
			ctx.Nontrivial(fmt.Sprintf("stopping-fan|%d|%d|%s|%d|%d", cfg.Min, cfg.Max, loop.Kind, c, sc.Window))
		}
	}
}

// c04RealFanLimits: S(0) and S(255) on real hwmon fans whose limits come partly from the configuration and partly
// from the attached measurement: the steady request at curve 255 is the maximum the user configured (resp. the
// measured one), at curve 0 the minimum, for every algorithm.
func c04RealFanLimits(ctx *Ctx, r *rand.Rand) {
	for k := 0; k < 6; k++ {
		fan, _, _ := genFan(r, []string{"hwmon"})
		if fan.ExpMax == nil {
			continue
		}
		fan.HasRpm = false // no tachometer: the stall logic stays out of this
		for _, loop := range []LoopSpec{{Kind: "direct"}, {Kind: "ratelimit", M: 5 + r.Intn(40)}} {
			sc := &Scenario{Fan: fan, Plant: PlantSpec{Kind: "linear", MaxRpm: 2000}, Map: MapSpec{Kind: "identity"}, Loop: loop, Window: 1, InitPwm: r.Intn(256), InitMode: 1}
			for i := 0; i < 70; i++ {
				sc.Steps = append(sc.Steps, CycleStep{Curve: 255, DtMs: 200})
			}
			for i := 0; i < 70; i++ {
				sc.Steps = append(sc.Steps, CycleStep{Curve: 0, DtMs: 200})
			}
			bad := false
			runScenario(ctx, sc, func(w *World, rec *CycleRecord) bool {
				ctx.Eval(1)
				if rec.Err != nil || rec.Panic != "" || !rec.HasRequest {
					return true
				}
				cls := c01LimitClass(sc) + ":" + loop.Kind
				if rec.Idx == 69 && rec.Request != *fan.ExpMax {
					ctx.Violation("real-fan:steady-value-at-curve-255-is-not-the-fan-maximum:"+cls, fmt.Sprintf("request %d after 70 cycles at curve 255; configured max %s, configured min %s, limits by configuration and measurement %v..%d", rec.Request, pstr(fan.CfgMax), pstr(fan.CfgMin), pstr(fan.ExpMin), *fan.ExpMax), sc)
					bad = true
				}
				if rec.Idx == 139 && fan.ExpMin != nil && rec.Request != *fan.ExpMin {
					ctx.Violation("real-fan:steady-value-at-curve-0-is-not-the-fan-minimum:"+cls, fmt.Sprintf("request %d after 70 cycles at curve 0; configured max %s, configured min %s, limits by configuration and measurement %d..%d", rec.Request, pstr(fan.CfgMax), pstr(fan.CfgMin), *fan.ExpMin, *fan.ExpMax), sc)
					bad = true
				}
				return false
			})
			if !bad {
				ctx.Nontrivial(fmt.Sprintf("real-fan|%s|%s|%v|%d", c01LimitClass(sc), loop.Kind, fan.NeverStop, *fan.ExpMax))
			}
		}
	}
}

func init() {
	register("C04", func(ctx *Ctx) {
		if ctx.Replay != "" {
			var rn c04Run
			b, err := os.ReadFile(ctx.Replay)
			if err == nil {
				err = json.Unmarshal(b, &rn)
			}
			if err != nil {
				ctx.Inconclusive("cannot read replay: " + err.Error())
				return
			}
			reqs, e := rn.exec()
			S, _ := c04Steady(rn.Cfg)
			fmt.Fprintf(os.Stderr, "replay: requests(last 12)=%v err=%v direct steady=%d\n", tail(reqs, 12), e, S[rn.Curve])
			ctx.Nontrivial("replay-a")
			ctx.Nontrivial("replay-b")
			ctx.Eval(int64(len(reqs)))
			return
		}
		r := ctx.Rng
		nCfg := 48
		if ctx.Thorough() {
			nCfg = 400
		}
		for i := 0; i < nCfg; i++ {
			cfg := genC04Config(r, i)
			m := pick(r, 1, 2, 3, 10, 50, 254, 255, 1+r.Intn(255))
			if i%ctx.Of != ctx.Batch {
				continue
			}
			var starts []int
			curveStep := 1
			if ctx.Thorough() {
				for x := 0; x <= 255; x++ {
					starts = append(starts, x)
				}
				if m < 3 {
					curveStep = 3 // keeps m=1,2 affordable: 86 curve values x 256 starts x ~260 cycles
				}
			} else {
				starts = []int{0, 1, cfg.Min - 1, cfg.Min, cfg.Min + 1, (cfg.Min + cfg.Max) / 2, cfg.Max - 1, cfg.Max, cfg.Max + 1, 254, 255, r.Intn(256), r.Intn(256)}
				for k := range starts {
					if starts[k] < 0 {
						starts[k] = 0
					}
					if starts[k] > 255 {
						starts[k] = 255
					}
				}
				if m < 10 {
					curveStep = 5
				}
			}
			ctx.SampleKind("direct", map[string]interface{}{"kind": "direct+ratelimit", "cfg": cfg, "m": m, "starts": len(starts), "curve_step": curveStep})
			c04Direct(ctx, cfg, 0, starts, curveStep)
			c04Direct(ctx, cfg, m, starts, curveStep)
			ctx.SampleKind("pid", map[string]interface{}{"kind": "pid", "cfg": cfg, "N": c04PidN, "ticks_ms": []int{50, 200, 1000, 2000}})
			nPid := 6
			if ctx.Thorough() {
				nPid = 40
			}
			c04Pid(ctx, cfg, r, nPid)
			c04DirectAfterHistory(ctx, cfg, m, r, nPid*4)
			c04NarrowRangeLimit(ctx, i)
			c04ConfigPath(ctx, i)
			c04StoppingFan(ctx, cfg, r)
			c04RealFanLimits(ctx, r)
			c04SeveralFans(ctx, i)
			c04RpmGlitch(ctx, r)
		}
	})
}
