package main

import (
	"fmt"
	"os"
	"path/filepath"
	"strings"

	"github.com/markusressel/fan2go/internal/configuration"
	"github.com/markusressel/fan2go/internal/fans"
	"github.com/spf13/viper"
)

// c13ConfigPath: the limits as a user configures them - in a configuration file read by the real loader - and several
// files loaded one after the other in one process (what `fan2go fan --id X init` and every test harness does). What
// counts as configured is what THIS file says: a key that is absent is not configured, whatever an earlier file said.
func c13ConfigPath(ctx *Ctx, idx int) {
	r := ctx.Rng
	dir := ctx.Path(fmt.Sprintf("c13cfg-%d-%d", ctx.Batch, idx))
	_ = os.MkdirAll(dir, 0755)
	defer os.RemoveAll(dir)
	sensorFile := filepath.Join(dir, "sensor")
	_ = os.WriteFile(sensorFile, []byte("40000\n"), 0644)
	var history []string
	for load := 0; load < 3; load++ {
		c := &c13Case{NeverStop: r.Intn(2) == 0}
		if r.Intn(2) == 0 {
			c.CfgMin = iptr(pick(r, 0, 30, 40, 255, r.Intn(256)))
		}
		if r.Intn(2) == 0 {
			c.CfgStart = iptr(pick(r, 0, 45, 254, 255, r.Intn(256)))
		}
		if r.Intn(2) == 0 {
			c.CfgMax = iptr(pick(r, 1, 200, 255, r.Intn(256)))
		}
		var sb strings.Builder
		fmt.Fprintf(&sb, "dbPath: %s/fan2go.db\nsensors:\n  - id: s\n    file:\n      path: %s\ncurves:\n  - id: c\n    linear:\n      sensor: s\n      min: 40\n      max: 80\nfans:\n  - id: f\n    hwmon:\n      platform: chip\n      rpmChannel: 1\n    curve: c\n", dir, sensorFile)
		if c.NeverStop {
			sb.WriteString("    neverStop: true\n")
		} else if r.Intn(2) == 0 {
			sb.WriteString("    neverStop: false\n")
		}
		if c.CfgMin != nil {
			fmt.Fprintf(&sb, "    minPwm: %d\n", *c.CfgMin)
		}
		if c.CfgStart != nil {
			fmt.Fprintf(&sb, "    startPwm: %d\n", *c.CfgStart)
		}
		if c.CfgMax != nil {
			fmt.Fprintf(&sb, "    maxPwm: %d\n", *c.CfgMax)
		}
		// the control algorithm in one of the supported spellings (the deprecated controlLoop among them)
		sb.WriteString(pick(r, "", "", "    controlAlgorithm: direct\n", "    controlLoop:\n      p: 0.3\n      i: 0.02\n      d: 0.005\n", "    controlAlgorithm:\n      pid:\n        p: 0.3\n        i: 0.02\n        d: 0.005\n"))
		text := sb.String()
		history = append(history, text)
		cfgPath := filepath.Join(dir, fmt.Sprintf("fan2go-%d.yaml", load))
		_ = os.WriteFile(cfgPath, []byte(text), 0644)
		viper.Reset()
		var lerr error
		panicked, msg := Guard(func() {
			configuration.InitConfig(cfgPath)
			if lerr = viper.ReadInConfig(); lerr != nil {
				return
			}
			configuration.LoadConfig()
		})
		ctx.Eval(1)
		if panicked || lerr != nil || len(configuration.CurrentConfig.Fans) != 1 {
			ctx.Violation("config-path:documented-fan-entry-not-loaded", fmt.Sprintf("%v %s\n%s", lerr, firstLines(msg, 4), text), map[string]interface{}{"files": history})
			return
		}
		fc := configuration.CurrentConfig.Fans[0]
		fan, err := fans.NewFan(fc)
		if err != nil {
			ctx.Violation("config-path:fan-not-created", err.Error()+"\n"+text, map[string]interface{}{"files": history})
			return
		}
		d := genC13Data(r)
		m := map[int]float64{}
		for k, v := range d {
			m[k] = v
		}
		if len(m) == 0 {
			m[100] = 1000
			d = c13Data{100: 1000}
		}
		if aerr := fan.AttachFanRpmCurveData(&m); aerr != nil {
			continue
		}
		got := [3]int{fan.GetMinPwm(), fan.GetStartPwm(), fan.GetMaxPwm()}
		cls := fmt.Sprintf("load-%d:min=%v:start=%v:max=%v:neverStop=%v", load+1, c.CfgMin != nil, c.CfgStart != nil, c.CfgMax != nil, c.NeverStop)
		desc := func() string { return fmt.Sprintf("load no. %d of one process; this file:\n%s-> min %d start %d max %d, data %v", load+1, text, got[0], got[1], got[2], d) }
		replay := map[string]interface{}{"files": history, "data": d}
		if fan.ShouldNeverStop() != c.NeverStop {
			ctx.Violation("config-path:neverStop-not-what-the-file-says:"+cls, desc(), replay)
			return
		}
		if c.CfgStart != nil && got[1] != *c.CfgStart {
			ctx.Violation("config-path:configured-start-replaced:"+cls, desc(), replay)
			return
		}
		if c.CfgMax != nil && got[2] != *c.CfgMax {
			ctx.Violation("config-path:configured-max-replaced:"+cls, desc(), replay)
			return
		}
		if c.NeverStop && c.CfgMin != nil && got[0] != *c.CfgMin {
			ctx.Violation("config-path:configured-min-replaced:"+cls, desc(), replay)
			return
		}
		if !c.NeverStop && got[0] != 0 {
			ctx.Violation("config-path:minimum-not-0-without-neverStop:"+cls, desc(), replay)
			return
		}
		sLo, sHi, mx, defined := c13Ref(d)
		if defined {
			if c.CfgStart == nil && got[1] != sLo && got[1] != sHi {
				ctx.Violation("config-path:measured-start-wrong:"+cls, desc()+fmt.Sprintf("; reference start %d", sHi), replay)
				return
			}
			if c.CfgMax == nil && got[2] != mx {
				ctx.Violation("config-path:measured-max-wrong:"+cls, desc()+fmt.Sprintf("; reference max %d", mx), replay)
				return
			}
		}
		ctx.Nontrivial("config-path|" + cls)
	}
}
