package main

import (
	"strconv"
	"encoding/json"
	"fmt"
	"math/rand"
	"os"
)

// C01 — every PWM value written while regulating stays inside the fan's limits.
//
// Monitor: after every control cycle of a generated closed-loop history,
//   (a) no panic,
//   (b) the request r lies in [fan.GetMinPwm(), fan.GetMaxPwm()] (getters read
//       before the cycle; minimum is 0 for fans that may stop),
//   (c) every value written to the fan's PWM control during the cycle equals
//       pwmMap[k] for a supported input k nearest to r, and is in 0..255.

func genC01(r *rand.Rand, cmdOK bool) *Scenario {
	kinds := []string{"hwmon", "hwmon", "hwmon", "file", "sim", "sim"}
	if cmdOK {
		kinds = []string{"cmd"}
	}
	fan, _, _ := genFan(r, kinds)
	sc := &Scenario{Fan: fan, Loop: genLoop(r), Window: pick(r, 1, 2, 5, 10, 20)}
	sc.Map = genMap(r, fan.Kind == "hwmon" || fan.Kind == "file")
	sc.Plant = PlantSpec{Kind: pick(r, "linear", "threshold", "threshold", "never", "plateau"), Theta: r.Intn(256), MaxRpm: pick(r, 800, 2000, 10000), MaxEff: 100 + r.Intn(156)}
	sc.InitPwm = r.Intn(256)
	sc.InitMode = pick(r, 0, 1, 2, 5)
	sc.PriorRpm = pick(r, 0.0, 0.0, 1, 300, 1500)
	n := 150
	if cmdOK {
		n = 25
	}
	traj := genCurveTrajectory(r, n, true)
	fixedDt := int64(-1)
	if r.Intn(2) == 0 {
		fixedDt = genDt(r)
	}
	for i := 0; i < n; i++ {
		st := CycleStep{Curve: traj[i], DtMs: fixedDt, Polls: pick(r, 0, 1, 1, 1, 5)}
		if fixedDt < 0 {
			st.DtMs = genDt(r)
		}
		if r.Intn(25) == 0 {
			t := r.Intn(257)
			st.Theta = &t
		}
		sc.Steps = append(sc.Steps, st)
	}
	return sc
}

func checkC01(ctx *Ctx, sc *Scenario) {
	nontrivial := ""
	runScenario(ctx, sc, func(w *World, rec *CycleRecord) bool {
		ctx.Eval(1)
		class := fmt.Sprintf("%s:%s:%s", sc.Fan.Label(), sc.Loop.Kind, sc.Map.Kind)
		if rec.Panic != "" {
			ctx.Violation("panic-in-cycle:"+class, fmt.Sprintf("cycle %d: %s", rec.Idx, rec.Panic), sc)
			return true
		}
		if rec.Err != nil {
			// stalled at max: regulation of this fan stops (C10)
			return true
		}
		if !rec.HasRequest {
			ctx.Violation("no-request-after-cycle:"+class, fmt.Sprintf("cycle %d", rec.Idx), sc)
			return true
		}
		if rec.Idx == 0 {
			// the limits in force are the ones the user configured (resp. the measured ones where nothing is configured)
			if sc.Fan.ExpMax != nil && rec.MaxBefore != *sc.Fan.ExpMax {
				ctx.Violation("fan-maximum-not-the-configured-or-measured-one:"+c01LimitClass(sc), fmt.Sprintf("%s: maximum in force %d, expected %d (configured max %s, configured min %s)", class, rec.MaxBefore, *sc.Fan.ExpMax, pstr(sc.Fan.CfgMax), pstr(sc.Fan.CfgMin)), sc)
			}
			if sc.Fan.ExpMin != nil && rec.MinBefore != *sc.Fan.ExpMin {
				ctx.Violation("fan-minimum-not-the-configured-or-measured-one:"+c01LimitClass(sc), fmt.Sprintf("%s: minimum in force %d, expected %d (configured max %s, configured min %s)", class, rec.MinBefore, *sc.Fan.ExpMin, pstr(sc.Fan.CfgMax), pstr(sc.Fan.CfgMin)), sc)
			}
		}
		r := rec.Request
		raised := rec.StatsAfter.IncreasedMinPwmCount > rec.StatsBefore.IncreasedMinPwmCount
		suffix := ""
		if rec.StatsAfter.IncreasedMinPwmCount > 0 {
			suffix = ":after-stall-raises"
		}
		if r > rec.MaxBefore {
			ctx.Violation("request>max"+suffix, fmt.Sprintf("%s cycle %d: request %d > max %d (min %d, curve %d)", class, rec.Idx, r, rec.MaxBefore, rec.MinBefore, rec.Step.Curve), sc)
		}
		if r < rec.MinBefore {
			ctx.Violation("request<min"+suffix, fmt.Sprintf("%s cycle %d: request %d < min %d (max %d, curve %d)", class, rec.Idx, r, rec.MinBefore, rec.MaxBefore, rec.Step.Curve), sc)
		}
		if w.PwmMap != nil {
			allowed := map[int]bool{}
			for _, k := range refNearest(w.Supp, r) {
				allowed[w.PwmMap[k]] = true
			}
			for _, v := range rec.PwmWrites {
				if v < 0 || v > 255 {
					ctx.Violation("written-outside-0..255:"+class, fmt.Sprintf("cycle %d: wrote %d for request %d", rec.Idx, v, r), sc)
				}
				if !allowed[v] {
					ctx.Violation("written-not-map-of-nearest:"+class, fmt.Sprintf("cycle %d: wrote %d for request %d, allowed %v", rec.Idx, v, r, allowed), sc)
				}
			}
			ctx.Count("pwm_writes", int64(len(rec.PwmWrites)))
		}
		// non-triviality: the loop output had to be clamped, a stall raise happened, or dt = 0
		if rec.Step.Curve < 0 || rec.Step.Curve > 255 {
			nontrivial = "curve-out-of-range"
			ctx.Count("cycles_curve_out_of_range", 1)
		}
		if raised {
			nontrivial = "stall-raise"
			ctx.Count("stall_raises", 1)
		}
		if rec.Step.DtMs == 0 && sc.Loop.Kind == "pid" {
			if nontrivial == "" {
				nontrivial = "dt0"
			}
			ctx.Count("cycles_pid_dt0", 1)
		}
		if r == rec.MaxBefore || r == rec.MinBefore {
			ctx.Count("cycles_request_at_limit", 1)
		}
		ctx.AddSet("states", fmt.Sprintf("%d/%d", r, rec.StatsAfter.MinPwmOffset))
		return false
	})
	if nontrivial != "" {
		lim := c01LimitClass(sc)
		ctx.Nontrivial(fmt.Sprintf("%s|%s|m%d|%s|%s|%s|ns=%v|%s|%d", sc.Fan.Label(), sc.Loop.Kind, sc.Loop.M, sc.Map.Kind, lim, nontrivial, sc.Fan.NeverStop, sc.Plant.Kind, hashStr(jsonStr(sc.Steps))%1000))
	}
}

func init() {
	register("C01", func(ctx *Ctx) {
		if ctx.Replay != "" {
			var sc Scenario
			b, err := os.ReadFile(ctx.Replay)
			if err == nil {
				err = json.Unmarshal(b, &sc)
			}
			if err != nil {
				ctx.Inconclusive("cannot read replay: " + err.Error())
				return
			}
			checkC01(ctx, &sc)
			return
		}
		if ctx.Batch == 0 {
			c01Concurrent(ctx)
		}
		n := ctx.N(24000, 400000)
		for i := 0; i < n; i++ {
			sc := genC01(ctx.Rng, false)
			if i < 2 {
				ctx.Sample(map[string]interface{}{"fan": sc.Fan.Kind, "neverStop": sc.Fan.NeverStop, "loop": sc.Loop, "map": sc.Map.Kind, "first_steps": sc.Steps[:5], "cycles": len(sc.Steps)})
			}
			checkC01(ctx, sc)
		}
		// a few histories on real cmd fans (each cycle costs several process spawns)
		nc := ctx.N(48, 800)
		for i := 0; i < nc; i++ {
			checkC01(ctx, genC01(ctx.Rng, true))
		}
	})
}

func c01LimitClass(sc *Scenario) string {
	switch {
	case sc.Fan.Measured != nil && (sc.Fan.CfgMin != nil || sc.Fan.CfgMax != nil):
		return fmt.Sprintf("partly-configured(min=%v,start=%v,max=%v)", sc.Fan.CfgMin != nil, sc.Fan.CfgStart != nil, sc.Fan.CfgMax != nil)
	case sc.Fan.CfgMin != nil:
		return "configured"
	case sc.Fan.Measured != nil:
		return "measured"
	}
	return "range"
}

func pstr(p *int) string {
	if p == nil {
		return "-"
	}
	return strconv.Itoa(*p)
}
