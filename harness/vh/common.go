package main

import (
	"runtime"
	"strings"
	"encoding/json"
	"fmt"
	"hash/fnv"
	"math/rand"
	"os"
	"path/filepath"
	"runtime/debug"
	"sort"
	"time"
)

// Violation is one refuting observation. Signature is the oracle clause that
// failed plus the abstract input class; the orchestrator compares it with the
// committed known-findings file.
type Violation struct {
	Signature string      `json:"signature"`
	Detail    string      `json:"detail"`
	Replay    interface{} `json:"replay,omitempty"`
	Count     int         `json:"count"`
}

type Result struct {
	Property     string                 `json:"property"`
	Seed         int64                  `json:"seed"`
	Tier         string                 `json:"tier"`
	Batch        int                    `json:"batch"`
	Of           int                    `json:"of"`
	Evaluations  int64                  `json:"evaluations"`
	Nontrivial   []string               `json:"nontrivial"` // distinct keys of non-trivial cases
	Samples      []interface{}          `json:"samples"`
	Violations   []*Violation           `json:"violations"`
	Counters     map[string]int64       `json:"counters"`
	Sets         map[string][]string    `json:"sets"`
	Inconclusive []string               `json:"inconclusive"`
	HarnessError string                 `json:"harness_error,omitempty"`
	Extra        map[string]interface{} `json:"extra,omitempty"`
}

type Ctx struct {
	Name    string
	Seed    int64
	Tier    string
	Batch   int
	Of      int
	Replay  string
	Mode    string
	Arg     string
	Rng     *rand.Rand
	Res     *Result
	Scratch string
	Abort   bool // a case could not be brought to an end (stuck goroutines): stop the batch

	caselog    string
	nontrivial map[string]bool
	sets       map[string]map[string]bool
	vio        map[string]*Violation
	ownScratch bool
	sampleKinds map[string]bool
}

func newCtx(name string, seed int64, tier string, batch, of int, replay, caselog, scratch string) *Ctx {
	c := &Ctx{
		Name: name, Seed: seed, Tier: tier, Batch: batch, Of: of, Replay: replay,
		caselog:    caselog,
		nontrivial: map[string]bool{},
		sets:       map[string]map[string]bool{},
		vio:        map[string]*Violation{},
		Res: &Result{Property: name, Seed: seed, Tier: tier, Batch: batch, Of: of,
			Counters: map[string]int64{}, Extra: map[string]interface{}{}},
	}
	// every batch has its own deterministic stream
	c.Rng = rand.New(rand.NewSource(seed*1000003 + int64(batch)*7919 + int64(hashStr(name))%1000))
	if scratch == "" {
		base := "/dev/shm"
		if st, err := os.Stat(base); err != nil || !st.IsDir() {
			base = os.TempDir()
		}
		d, err := os.MkdirTemp(base, "vh-"+name+"-")
		if err != nil {
			panic(err)
		}
		scratch = d
		c.ownScratch = true
	}
	c.Scratch = scratch
	return c
}

func (c *Ctx) Thorough() bool { return c.Tier == "thorough" }

// N picks the case count for the tier, divided over the batches.
func (c *Ctx) N(quick, thorough int) int {
	n := quick
	if c.Thorough() {
		n = thorough
	}
	per := n / c.Of
	if c.Batch < n%c.Of {
		per++
	}
	return per
}

func (c *Ctx) finish() {
	for k := range c.nontrivial {
		c.Res.Nontrivial = append(c.Res.Nontrivial, k)
	}
	sort.Strings(c.Res.Nontrivial)
	c.Res.Sets = map[string][]string{}
	for name, s := range c.sets {
		var l []string
		for k := range s {
			l = append(l, k)
		}
		sort.Strings(l)
		c.Res.Sets[name] = l
	}
	var sigs []string
	for s := range c.vio {
		sigs = append(sigs, s)
	}
	sort.Strings(sigs)
	for _, s := range sigs {
		c.Res.Violations = append(c.Res.Violations, c.vio[s])
	}
	if c.ownScratch {
		_ = os.RemoveAll(c.Scratch)
	}
}

func (c *Ctx) Eval(n int64)                 { c.Res.Evaluations += n }
func (c *Ctx) Count(name string, n int64)   { c.Res.Counters[name] += n }
func (c *Ctx) Max(name string, v int64) {
	if v > c.Res.Counters[name] {
		c.Res.Counters[name] = v
	}
}
func (c *Ctx) Nontrivial(key string)        { c.nontrivial[key] = true }
func (c *Ctx) Inconclusive(reason string)   { c.Res.Inconclusive = append(c.Res.Inconclusive, reason) }
func (c *Ctx) AddSet(name string, k string) {
	if c.sets[name] == nil {
		c.sets[name] = map[string]bool{}
	}
	c.sets[name][k] = true
}

// SampleKind keeps one sample per kind (at most 6 kinds).
func (c *Ctx) SampleKind(kind string, s interface{}) {
	if c.sampleKinds == nil {
		c.sampleKinds = map[string]bool{}
	}
	if c.sampleKinds[kind] || len(c.sampleKinds) >= 6 {
		return
	}
	c.sampleKinds[kind] = true
	c.Res.Samples = append(c.Res.Samples, s)
}

func (c *Ctx) Sample(s interface{}) {
	if len(c.Res.Samples) < 3 {
		c.Res.Samples = append(c.Res.Samples, s)
	}
}

// Violation records a refuting observation; the first witness per signature is kept.
func (c *Ctx) Violation(sig, detail string, replay interface{}) {
	if v, ok := c.vio[sig]; ok {
		v.Count++
		return
	}
	c.vio[sig] = &Violation{Signature: sig, Detail: detail, Replay: replay, Count: 1}
}

// LogCase writes the case about to run to the case log, so that a process-fatal
// crash can be attributed to it by the parent.
func (c *Ctx) LogCase(v interface{}) {
	if c.caselog == "" {
		return
	}
	b, _ := json.Marshal(v)
	tmp := c.caselog + ".tmp"
	if err := os.WriteFile(tmp, b, 0644); err == nil {
		_ = os.Rename(tmp, c.caselog)
	}
}

// Guard runs f and converts a panic into a description.
func Guard(f func()) (panicked bool, msg string) {
	defer func() {
		if p := recover(); p != nil {
			panicked = true
			msg = fmt.Sprintf("%v\n%s", p, trimStack(debug.Stack()))
		}
	}()
	f()
	return false, ""
}

// abortBatch unwinds a batch whose current case cannot be brought to an end
type abortBatch struct{}

// GuardStuck is Guard for calls that may never return: f runs in a goroutine of its own. When it has not returned
// after 70 s the goroutine dump is consulted once a second: a fan2go goroutine that has been waiting for a lock for
// minutes is a deadlock (stuck = its dump block; nothing in fan2go holds a lock across a sleep or an external
// command); without one the wait goes on (the batch watchdog, whose firing decides nothing, ends it).
func GuardStuck(f func()) (panicked bool, msg string, stuck string) {
	type res struct {
		p bool
		m string
	}
	done := make(chan res, 1)
	go func() {
		p, m := Guard(f)
		done <- res{p, m}
	}()
	fin := make(chan struct{})
	var r res
	go func() { r = <-done; close(fin) }()
	for {
		returned, blk := awaitOrDeadlock(fin)
		if returned {
			return r.p, r.m, ""
		}
		if blk != "" {
			return false, "", blk
		}
	}
}

// awaitOrDeadlock waits for fin. The Go runtime stamps the time a goroutine began to wait at the first garbage
// collection after that, so one is forced 5 s into the wait; from 70 s on the goroutine dump is consulted once a second
// for ten minutes: a fan2go goroutine that has been waiting for a lock for minutes is a deadlock (blk = its dump block).
// returned=false with blk="" means "still running, nothing proven".
func awaitOrDeadlock(fin <-chan struct{}) (returned bool, blk string) {
	select {
	case <-fin:
		return true, ""
	case <-time.After(5 * time.Second):
	}
	runtime.GC()
	select {
	case <-fin:
		return true, ""
	case <-time.After(65 * time.Second):
	}
	for i := 0; i < 600; i++ {
		if blk := lockedForMinutes(); blk != "" {
			return false, blk
		}
		select {
		case <-fin:
			return true, ""
		case <-time.After(time.Second):
		}
	}
	return false, ""
}

func trimStack(b []byte) string {
	if len(b) > 3000 {
		return string(b[:3000])
	}
	return string(b)
}

func hash64(s string) string {
	h := fnv.New64a()
	_, _ = h.Write([]byte(s))
	return fmt.Sprintf("%016x", h.Sum64())
}

func hashStr(s string) uint32 {
	h := fnv.New32a()
	_, _ = h.Write([]byte(s))
	return h.Sum32()
}

func (c *Ctx) Path(parts ...string) string {
	return filepath.Join(append([]string{c.Scratch}, parts...)...)
}

func pick[T any](r *rand.Rand, xs ...T) T { return xs[r.Intn(len(xs))] }

func jsonStr(v interface{}) string {
	b, _ := json.Marshal(v)
	return string(b)
}

func iptr(v int) *int { return &v }

// setupDesktop puts the process into one of the desktop-session situations fan2go's error notifications meet
// (ui.NotifySend: DISPLAY, `who`, `id -u`, `sudo -u <user> ... notify-send`), chosen by the batch number. The fake
// commands live in the scratch directory and come first in PATH.
func setupDesktop(ctx *Ctx) string {
	variant := []string{"no-DISPLAY", "nobody-on-the-display", "user-on-the-display", "user-on-the-display-notify-send-fails", "who-fails", "who-prints-nothing", "DISPLAY-empty-who-prints-nothing"}[ctx.Batch%7]
	bin := ctx.Path("fakebin")
	_ = os.MkdirAll(bin, 0755)
	script := func(name, body string) { _ = os.WriteFile(filepath.Join(bin, name), []byte("#!/bin/sh\n"+body+"\n"), 0755) }
	switch variant {
	case "no-DISPLAY":
		_ = os.Unsetenv("DISPLAY")
		return variant
	case "nobody-on-the-display":
		script("who", "echo 'alice    pts/0        2026-10-03 10:05 (192.168.1.7)'")
	case "user-on-the-display", "user-on-the-display-notify-send-fails":
		script("who", "echo 'alice    pts/0        2026-10-03 10:05 (192.168.1.7)'; echo 'bob      :0           2026-10-03 09:00 (:0)'")
		script("id", "echo 1000")
		if variant == "user-on-the-display" {
			script("sudo", "exit 0")
		} else {
			script("sudo", "echo 'cannot connect to the session bus' >&2; exit 1")
		}
	case "who-fails":
		script("who", "exit 1")
	case "who-prints-nothing":
		script("who", "true")
	case "DISPLAY-empty-who-prints-nothing":
		// DISPLAY exported but empty (`Environment=DISPLAY=` in a unit file), nobody logged in
		script("who", "true")
		_ = os.Setenv("DISPLAY", "")
		_ = os.Setenv("PATH", bin+":"+os.Getenv("PATH"))
		return variant
	}
	_ = os.Setenv("DISPLAY", ":0")
	_ = os.Setenv("PATH", bin+":"+os.Getenv("PATH"))
	return variant
}

// lockedForMinutes returns the stack of a goroutine that the Go runtime reports as waiting for a mutex for at least a
// minute inside fan2go's own code (not the harness), or "".
func lockedForMinutes() string {
	buf := make([]byte, 4<<20)
	n := runtime.Stack(buf, true)
	for _, blk := range strings.Split(string(buf[:n]), "\n\n") {
		head := strings.SplitN(blk, "\n", 2)[0]
		if !strings.Contains(head, " minutes]") {
			continue
		}
		body := strings.ReplaceAll(blk, "/internal/verif/", "/VERIF/")
		if strings.Contains(head, "chan receive") || strings.Contains(head, "chan send") {
			// a bare channel operation written in fan2go itself (first frame), not a library's or the harness's wait
			if ls := strings.SplitN(body, "\n", 3); len(ls) > 1 && strings.HasPrefix(ls[1], "github.com/markusressel/fan2go/internal/") {
				if len(blk) > 1500 {
					blk = blk[:1500]
				}
				return blk
			}
			continue
		}
		if !(strings.Contains(head, "sync.Mutex.Lock") || strings.Contains(head, "sync.RWMutex") || strings.Contains(head, "semacquire")) {
			continue
		}
		if strings.Contains(body, "markusressel/fan2go/internal/") {
			if len(blk) > 1500 {
				blk = blk[:1500]
			}
			return blk
		}
	}
	return ""
}
