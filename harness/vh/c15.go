package main

import (
	"context"
	"fmt"
	"math/rand"
	"os"
	"path/filepath"
	"strconv"
	"strings"
	"sync"
	"sync/atomic"
	"time"

	"github.com/markusressel/fan2go/internal/configuration"
	"github.com/markusressel/fan2go/internal/control_loop"
	"github.com/markusressel/fan2go/internal/controller"
	"github.com/markusressel/fan2go/internal/curves"
	"github.com/markusressel/fan2go/internal/fans"
	"github.com/markusressel/fan2go/internal/persistence"
	"github.com/markusressel/fan2go/internal/util"
)

// C15 (in-process layer) — stored characterisation is reused; fans are analysed once.
//
// Sequences of start / stop / reset / init against one real bbolt database. A "start" is what a
// fresh daemon process does for the fan: new fan object, new controller, Run() until regulation
// has begun, then stop. "reset" deletes both stored entries (fan2go fan reset), "init" deletes
// them and runs the analysis (fan2go fan init). Observed per start, before the first regulation
// cycle (= first evaluation of the fan's curve): the distinct PWM values written (a sweep writes
// 256 of them) and the longest run of consecutive RPM reads (the settle loop of the RPM-curve measurement
// reads the RPM >= 10 times in a row; the RPM monitor alternates PWM and RPM reads).
//   stored data present   => no sweep (<= 4 distinct values) and no RPM read
//   pwmMap configured     => never a sweep
//   minPwm+maxPwm given   => no RPM-curve measurement, even on the first start

type c15Case struct {
	FanKind  string   `json:"fanKind"` // hwmon | file | cmd
	PwmMap   bool     `json:"pwmMap"`  // configured pwmMap
	ViaLoader bool    `json:"viaLoader,omitempty"` // the fan entry goes through a configuration file and fan2go's loader
	MinMax   bool     `json:"minMax"`  // configured minPwm + maxPwm
	HasRpm   bool     `json:"hasRpm"`
	OneTool  bool     `json:"oneTool,omitempty"` // cmd fans: set, get and rpm are one executable with sub-commands (nvidia-settings, liquidctl)
	Levels   int      `json:"levels"`
	Ops      []string `json:"ops"` // start | reset | init
}

type c15World struct {
	ctx     *Ctx
	c       *c15Case
	dir     string
	id      string
	pwm     string
	en      string
	rpm     string
	dbPath  string
	curve   *ScriptCurve
	proxyId string
	evals   int64
}

func (w *c15World) fanConfig() configuration.FanConfig {
	cfg := configuration.FanConfig{ID: w.id, Curve: w.proxyId, NeverStop: false}
	if w.c.PwmMap {
		m := map[int]int{0: 0, 64: 128, 192: 255}
		cfg.PwmMap = &m
	}
	if w.c.MinMax {
		cfg.MinPwm, cfg.MaxPwm = iptr(30), iptr(220)
	}
	switch w.c.FanKind {
	case "hwmon":
		cfg.HwMon = &configuration.HwMonFanConfig{Platform: "c15", Index: 1, RpmChannel: 1, PwmChannel: 1, SysfsPath: w.dir, RpmInputPath: w.rpm, PwmPath: w.pwm, PwmEnablePath: w.en}
	case "file":
		cfg.File = &configuration.FileFanConfig{Path: w.pwm}
		if w.c.HasRpm {
			cfg.File.RpmPath = w.rpm
		}
	default:
		cfg.Cmd = &configuration.CmdFanConfig{
			SetPwm: &configuration.ExecConfig{Exec: filepath.Join(w.dir, "set.sh"), Args: []string{"%pwm%"}},
			GetPwm: &configuration.ExecConfig{Exec: filepath.Join(w.dir, "get.sh")},
		}
		if w.c.HasRpm {
			cfg.Cmd.GetRpm = &configuration.ExecConfig{Exec: filepath.Join(w.dir, "rpm.sh")}
		}
		if w.c.OneTool {
			tool := filepath.Join(w.dir, "tool.sh")
			cfg.Cmd.SetPwm = &configuration.ExecConfig{Exec: tool, Args: []string{"set", "%pwm%"}}
			cfg.Cmd.GetPwm = &configuration.ExecConfig{Exec: tool, Args: []string{"get"}}
			if w.c.HasRpm {
				cfg.Cmd.GetRpm = &configuration.ExecConfig{Exec: tool, Args: []string{"rpm"}}
			}
		}
	}
	return cfg
}

type c15Obs struct {
	Op             string `json:"op"`
	StoredBefore   bool   `json:"storedBefore"`
	DistinctWrites int    `json:"distinctPwmValuesWrittenBeforeRegulation"`
	RpmReads       int    `json:"longestRunOfConsecutiveRpmReadsBeforeRegulation"`
	Began          bool   `json:"regulationBegan"`
}

func (w *c15World) stored() bool {
	p := persistence.NewPersistence(w.dbPath)
	fan, _ := fans.NewFan(w.fanConfig())
	_, e1 := p.LoadFanPwmData(fan)
	_, e2 := p.LoadFanPwmMap(w.id)
	return e1 == nil && (e2 == nil || w.c.PwmMap)
}

func (w *c15World) start(ctx *Ctx) (obs c15Obs, ok bool) {
	obs.Op = "start"
	obs.StoredBefore = w.stored()
	d := driver
	atomic.StoreInt64(&w.evals, 0)
	distinct := map[int]bool{}
	rpmReads := 0 // longest run of consecutive RPM reads without any other device operation in between
	run := 0
	var omu sync.Mutex
	cmdCallsBefore := len(readLines(filepath.Join(w.dir, "calls")))
	d.Mu.Lock()
	d.Hook = func(ev *util.VerifEvent) {
		if atomic.LoadInt64(&w.evals) > 0 {
			return
		}
		omu.Lock()
		if ev.Op == "w" && ev.Path == w.pwm {
			distinct[ev.Val] = true
		}
		if ev.Op == "r" && ev.Path == w.rpm {
			run++
			if run > rpmReads {
				rpmReads = run
			}
		} else if ev.Path == w.pwm || ev.Path == w.en {
			run = 0
		}
		omu.Unlock()
	}
	d.Mu.Unlock()
	fcfg := w.fanConfig()
	if w.c.ViaLoader {
		// the entry as a user's configuration file and fan2go's loader deliver it
		loaded, lerr := fanConfigViaLoader(w.ctx, fcfg)
		if lerr != nil {
			panic("documented fan entry not loadable: " + lerr.Error())
		}
		fcfg = loaded
	}
	fan, err := fans.NewFan(fcfg)
	if err != nil {
		panic(err)
	}
	c := controller.NewFanController(persistence.NewPersistence(w.dbPath), fan, control_loop.NewDirectControlLoop(nil), 4*time.Millisecond)
	cctx, cancel := context.WithCancel(context.Background())
	done := make(chan error, 1)
	go func() { done <- c.Run(cctx) }()
	began := time.Now()
	returned := false
	for atomic.LoadInt64(&w.evals) == 0 && !returned && time.Since(began) < 120*time.Second {
		select {
		case <-done:
			returned = true
		case <-time.After(3 * time.Millisecond):
		}
	}
	obs.Began = atomic.LoadInt64(&w.evals) > 0
	var cmdCalls []string
	if w.c.FanKind == "cmd" {
		// snapshot at the moment regulation began
		cmdCalls = readLines(filepath.Join(w.dir, "calls"))[cmdCallsBefore:]
	}
	time.Sleep(20 * time.Millisecond)
	cancel()
	if !returned {
		select {
		case <-done:
		case <-time.After(60 * time.Second):
			ctx.Inconclusive("Run did not return: " + jsonStr(w.c))
			ctx.Abort = true
			return obs, false
		}
	}
	d.Mu.Lock()
	d.Hook = nil
	d.Mu.Unlock()
	omu.Lock()
	obs.DistinctWrites, obs.RpmReads = len(distinct), rpmReads
	omu.Unlock()
	if w.c.FanKind == "cmd" {
		dd := map[string]bool{}
		best, cur := 0, 0
		for _, l := range cmdCalls {
			l = strings.TrimSpace(l)
			if strings.HasPrefix(l, "set ") {
				dd[l] = true
			}
			if l == "rpm" {
				cur++
				if cur > best {
					best = cur
				}
			} else {
				cur = 0
			}
		}
		obs.DistinctWrites, obs.RpmReads = len(dd), best
	}
	return obs, true
}

func (w *c15World) reset() {
	p := persistence.NewPersistence(w.dbPath)
	fan, _ := fans.NewFan(w.fanConfig())
	_ = p.DeleteFanPwmData(fan)
	_ = p.DeleteFanPwmMap(w.id)
}

func (w *c15World) initCmd() {
	// what `fan2go fan init` does
	p := persistence.NewPersistence(w.dbPath)
	fan, _ := fans.NewFan(w.fanConfig())
	c := controller.NewFanController(p, fan, control_loop.NewDirectControlLoop(nil), 4*time.Millisecond)
	_ = p.DeleteFanPwmData(fan)
	_ = p.DeleteFanPwmMap(w.id)
	_ = c.RunInitializationSequence()
}

func runC15(ctx *Ctx, c *c15Case) {
	controller.VerifTimescale = 50
	d := installDriver()
	d.Mu.Lock()
	d.Rules, d.Hook = nil, nil
	d.Mu.Unlock()
	configuration.CurrentConfig.RunFanInitializationInParallel = true
	configuration.CurrentConfig.RpmPollingRate = 4 * time.Millisecond
	configuration.CurrentConfig.TempSensorPollingRate = 4 * time.Millisecond
	configuration.CurrentConfig.RpmRollingWindowSize = 5
	configuration.CurrentConfig.MaxRpmDiffForSettledFan = 20
	configuration.CurrentConfig.FanResponseDelay = 0
	dir := ctx.Path(uniqueId("c15"))
	_ = os.MkdirAll(dir, 0755)
	defer os.RemoveAll(dir)
	w := &c15World{ctx: ctx, c: c, dir: dir, id: uniqueId("c15fan"), pwm: filepath.Join(dir, "pwm1"), en: filepath.Join(dir, "pwm1_enable"), rpm: filepath.Join(dir, "fan1_input"),
		dbPath: filepath.Join(dir, "fan2go.db")}
	w.curve = newScriptCurve()
	w.curve.Val = 140
	w.proxyId = uniqueId("c15count")
	curves.RegisterSpeedCurve(&countingCurve{id: w.proxyId, inner: w.curve, evals: &w.evals})
	if c.FanKind == "cmd" {
		_ = os.WriteFile(filepath.Join(dir, "pwm"), []byte("90\n"), 0644)
		cmdScript(filepath.Join(dir, "set.sh"), "echo \"$1\" > "+dir+"/pwm; echo \"set $1\" >> "+dir+"/calls")
		cmdScript(filepath.Join(dir, "get.sh"), "echo get >> "+dir+"/calls; cat "+dir+"/pwm")
		cmdScript(filepath.Join(dir, "rpm.sh"), "echo rpm >> "+dir+"/calls; echo 1400")
		cmdScript(filepath.Join(dir, "tool.sh"), "sub=$1; shift; case \"$sub\" in set) exec "+dir+"/set.sh \"$@\";; get) exec "+dir+"/get.sh;; rpm) exec "+dir+"/rpm.sh;; esac; exit 64")
	} else {
		for _, p := range []string{w.pwm, w.en, w.rpm} {
			_ = os.WriteFile(p, []byte("0"), 0644)
		}
		d.Mu.Lock()
		d.Mem[w.pwm] = "90"
		if c.FanKind == "hwmon" {
			d.Mem[w.en] = "2"
		}
		d.Plants[w.rpm] = &util.VerifPlant{RpmPath: w.rpm, PwmPath: w.pwm, Kind: "linear", MaxRpm: 2000}
		if c.Levels >= 2 {
			d.Rules = append(d.Rules, &util.VerifRule{Path: w.pwm, Op: "w", Action: "quant", Val: c.Levels})
		}
		d.Mu.Unlock()
		defer func() {
			d.Mu.Lock()
			delete(d.Mem, w.pwm)
			delete(d.Mem, w.en)
			delete(d.Plants, w.rpm)
			d.Rules = nil
			d.Mu.Unlock()
		}()
	}
	class := fmt.Sprintf("%s:pwmMap=%v:minMax=%v:rpm=%v", c.FanKind, c.PwmMap, c.MinMax, c.HasRpm)
	ctx.LogCase(map[string]interface{}{"class": "process-died:" + class, "case": c})
	var trace []c15Obs
	startsWithStored := 0
	analysed := false // the previous operation completed an analysis or a start that reached regulation
	for i, op := range c.Ops {
		if ctx.Abort {
			return
		}
		switch op {
		case "reset":
			w.reset()
			analysed = false
			trace = append(trace, c15Obs{Op: "reset"})
		case "init":
			w.initCmd()
			analysed = true
			trace = append(trace, c15Obs{Op: "init"})
		default:
			obs, ok := w.start(ctx)
			if !ok {
				return
			}
			trace = append(trace, obs)
			ctx.Eval(1)
			if !obs.Began {
				ctx.Inconclusive(fmt.Sprintf("regulation did not begin in start no. %d of %s", i, jsonStr(c)))
				return
			}
			replay := map[string]interface{}{"case": c, "trace": trace}
			nth := "restart"
			if i == 0 {
				nth = "first-start"
			}
			if obs.StoredBefore {
				startsWithStored++
				if obs.DistinctWrites > 4 {
					ctx.Violation("sweep-repeated-although-data-stored:"+class, fmt.Sprintf("op %d (%s): %d distinct PWM values written before regulation began although RPM curve and PWM map were stored; trace %s", i, op, obs.DistinctWrites, jsonStr(trace)), replay)
					return
				}
				if obs.RpmReads >= 3 {
					ctx.Violation("rpm-curve-measured-again-although-data-stored:"+class, fmt.Sprintf("op %d: %d consecutive RPM reads (settle loop of the RPM-curve measurement) before regulation began; trace %s", i, obs.RpmReads, jsonStr(trace)), replay)
					return
				}
			}
			if analysed && !obs.StoredBefore && (obs.DistinctWrites > 4 || obs.RpmReads >= 3) {
				// the fan was characterised by the previous start / init, nothing was discarded since, and yet it is analysed again
				ctx.Violation("fan-analysed-again-after-completed-analysis:"+class, fmt.Sprintf("op %d: %d distinct PWM values written, %d consecutive RPM reads before regulation began, although the previous operation had completed the analysis and nothing was reset (characterisation not stored?); trace %s", i, obs.DistinctWrites, obs.RpmReads, jsonStr(trace)), replay)
				return
			}
			analysed = true
			if c.PwmMap && obs.DistinctWrites > 3+4 {
				ctx.Violation("sweep-although-pwmMap-configured:"+class+":"+nth, fmt.Sprintf("op %d: %d distinct PWM values written before regulation began; trace %s", i, obs.DistinctWrites, jsonStr(trace)), replay)
				return
			}
			if c.MinMax && obs.RpmReads >= 3 {
				ctx.Violation("init-not-skipped-with-min-max:"+c.FanKind, fmt.Sprintf("op %d: %d consecutive RPM reads before regulation began (settle loop), i.e. the RPM curve was measured although minPwm and maxPwm are configured; trace %s", i, obs.RpmReads, jsonStr(trace)), replay)
				// recorded; the sequence goes on (this clause is a known finding and must not mask the others)
			}
		}
	}
	if startsWithStored > 0 {
		ctx.Nontrivial(class + "|" + strings.Join(c.Ops, ","))
		ctx.AddSet("classes", class)
	}
	ctx.SampleKind(class, map[string]interface{}{"kind": class, "case": c, "trace": trace})
}

func genC15(r *rand.Rand, kind string) *c15Case {
	c := &c15Case{FanKind: kind, PwmMap: r.Intn(3) == 0, MinMax: r.Intn(3) == 0, HasRpm: r.Intn(4) > 0, Levels: pick(r, 0, 4, 6), ViaLoader: r.Intn(2) == 0}
	c.OneTool = kind == "cmd" && r.Intn(2) == 0
	if kind == "hwmon" {
		c.HasRpm = true
		if c.Levels == 0 && !c.PwmMap {
			c.Levels = 5 // keeps the RPM-curve measurement short
		}
	}
	c.Ops = []string{"start"}
	n := 2 + r.Intn(4)
	for i := 0; i < n; i++ {
		c.Ops = append(c.Ops, pick(r, "start", "start", "start", "reset", "init"))
	}
	c.Ops = append(c.Ops, "start")
	return c
}

func init() {
	register("C15", func(ctx *Ctx) {
		n := ctx.N(24, 400)
		for i := 0; i < n && !ctx.Abort; i++ {
			runC15(ctx, genC15(ctx.Rng, pick(ctx.Rng, "hwmon", "hwmon", "file", "file")))
		}
		nc := ctx.N(4, 60)
		for i := 0; i < nc && !ctx.Abort; i++ {
			runC15(ctx, genC15(ctx.Rng, "cmd"))
		}
		_ = strconv.Itoa
	})
}
