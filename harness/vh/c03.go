package main

import (
	"context"
	"fmt"
	"math/rand"
	"os"
	"sync"
	"sync/atomic"
	"time"

	"github.com/markusressel/fan2go/internal/controller"
	"github.com/markusressel/fan2go/internal/util"
)

// C03 (in-process layer) — stopping regulation hands the fan back or leaves it at full speed.
//
// The real controller.Run is started on a device in the virtual driver; regulation is stopped
// (context cancelled - what a termination signal does in the daemon) at an enumerated point:
// when the n-th device I/O operation is issued (i.e. in the middle of whatever the controller
// is doing then) or after a delay that falls into one of the waits. From that moment the
// driver applies the chosen faults to the restore writes. Final-state oracle after Run returned:
//   (mode == original and original != 1) or pwm == 255
// excused only if fan2go's last PWM write was 255 and the driver refused or ignored it.

type c03Case struct {
	Spec      RigSpec `json:"spec"`
	AtEvent   int64   `json:"atEvent"`   // >0: stop when this many driver events have been seen
	AfterMs   int     `json:"afterMs"`   // else: stop after this delay
	ModeFault string  `json:"modeFault"` // ok | refused | ignored | stick1
	PwmFault  string  `json:"pwmFault"`  // ok | refused
	Stall     bool    `json:"stall"`     // no stop at all: the fan stalls at its maximum (fatal control error)
	PwmUnreadable bool `json:"pwmUnreadable"` // PWM reads fail from the stop on
	// HangBeforeStop (cmd fans): the tachometer query stops answering (runs into fan2go's 2 s deadline) shortly before the stop
	HangBeforeStop bool `json:"hangBeforeStop,omitempty"`
}

func (c *c03Case) class() string {
	phase := "event"
	if c.AtEvent == 0 {
		phase = "time"
	}
	if c.Stall {
		phase = "stall-error"
	}
	if c.HangBeforeStop {
		phase = "time-after-a-query-ran-into-the-deadline"
	}
	if c.Spec.OneTool {
		phase += ":one-tool"
	}
	return fmt.Sprintf("%s:mode%d:enable=%v:modeFault=%s:pwmFault=%s:pwmUnreadable=%v:stored=%v:%s", c.Spec.FanKind, c.Spec.OrigMode, c.Spec.HasEnable, c.ModeFault, c.PwmFault, c.PwmUnreadable, c.Spec.Stored, phase)
}

func c03Rules(r *Rig, c *c03Case) []*util.VerifRule {
	var rules []*util.VerifRule
	switch c.ModeFault {
	case "refused":
		rules = append(rules, &util.VerifRule{Path: r.EnPath, Op: "w", Action: "fail", Errno: "EINVAL"})
	case "ignored":
		rules = append(rules, &util.VerifRule{Path: r.EnPath, Op: "w", Action: "ignore"})
	case "stick1":
		rules = append(rules, &util.VerifRule{Path: r.EnPath, Op: "w", Action: "stick", Val: 1})
	}
	if c.PwmFault == "refused" {
		rules = append(rules, &util.VerifRule{Path: r.PwmPath, Op: "w", Action: "fail", Errno: "EIO"})
	}
	if c.PwmUnreadable {
		// from the stop on the PWM value cannot be read back any more (the controller falls back to what it remembers)
		rules = append(rules, &util.VerifRule{Path: r.PwmPath, Op: "r", Action: "fail", Errno: "EIO"})
	}
	return rules
}

func runC03(ctx *Ctx, c *c03Case) {
	controller.VerifTimescale = 50
	ctx.LogCase(map[string]interface{}{"class": "process-died:" + c.class(), "case": c})
	rig := newRig(ctx, c.Spec)
	defer rig.close()
	cctx, cancel := context.WithCancel(context.Background())
	var done chan runResult
	var wg *sync.WaitGroup
	var stopped int32
	var eventsAtStop int64
	stop := func(locked bool) {
		if !atomic.CompareAndSwapInt32(&stopped, 0, 1) {
			return
		}
		eventsAtStop = atomic.LoadInt64(&rig.Events)
		rules := c03Rules(rig, c)
		if c.Spec.FanKind == "cmd" {
			rules = nil
			if c.PwmFault == "refused" {
				_ = os.WriteFile(rig.state("set.code"), []byte("1\n"), 0644)
			}
		}
		if locked {
			driver.Rules = append(rules, driver.Rules...)
		} else {
			rig.addRules(rules...)
		}
		cancel()
	}
	if c.Stall {
		// the fault rules apply from the start of the restore; we cannot know that moment from outside,
		// so for the stall scenario only the mode faults "stick1"/"ignored" are used, installed when the
		// request reaches the maximum
		rig.mu.Lock()
		rig.onEvent = func(n int64, ev *util.VerifEvent) {
			if ev.Op == "w" && ev.Path == rig.PwmPath && ev.Val >= 60 && atomic.CompareAndSwapInt32(&stopped, 0, 1) {
				eventsAtStop = n
				driver.Rules = append(c03Rules(rig, c), driver.Rules...)
			}
		}
		rig.mu.Unlock()
	} else if c.AtEvent > 0 {
		rig.mu.Lock()
		rig.onEvent = func(n int64, ev *util.VerifEvent) {
			if n == c.AtEvent {
				stop(true)
			}
		}
		rig.mu.Unlock()
	}
	// the stop callbacks are installed before Run starts: the first device operations come at once
	done, wg = rig.launch(cctx)
	if !c.Stall && c.AtEvent == 0 {
		go func() {
			time.Sleep(time.Duration(c.AfterMs) * time.Millisecond)
			if c.HangBeforeStop {
				_ = os.WriteFile(rig.state("rpm.hang"), []byte("1"), 0644)
				time.Sleep(2900 * time.Millisecond) // one query has run into the 2 s deadline (plus 0.5 s for its output pipes) by now
				_ = os.Remove(rig.state("rpm.hang"))
			}
			stop(false)
		}()
	}
	var res runResult
	if c.Stall {
		// A fan with an RPM sensor keeps its RPM monitor actor alive after the control loop ended with the
		// stall error, so Run only returns once the context is cancelled. Wait (logical condition, generous
		// limit) until the fan was handed back, then cancel and let Run return.
		deadline := time.Now().Add(30 * time.Second)
		for time.Now().Before(deadline) {
			if ok, _ := rig.restoredOK(false); ok && atomic.LoadInt32(&stopped) == 1 {
				break
			}
			select {
			case res = <-done:
				deadline = time.Now()
			case <-time.After(20 * time.Millisecond):
			}
		}
		time.Sleep(50 * time.Millisecond) // a few more cycles: the state must be stable
		cancel()
		if !res.Returned {
			select {
			case res = <-done:
			case <-time.After(60 * time.Second):
				ctx.Inconclusive("controller.Run did not return after cancel for " + jsonStr(c))
				ctx.Abort = true
				return
			}
		}
	} else {
		select {
		case res = <-done:
		case <-time.After(60 * time.Second):
			stop(false)
			select {
			case res = <-done:
				// the stop point was never reached (scenario shorter than expected)
				ctx.Count("stop_point_not_reached", 1)
			case <-time.After(60 * time.Second):
				ctx.Inconclusive("controller.Run did not return within the watchdog for " + jsonStr(c))
				ctx.Abort = true
				return
			}
		}
	}
	cancel()
	wg.Wait()
	ctx.Eval(1)
	if c.HangBeforeStop {
		ctx.Count("stops_right_after_a_query_ran_into_the_deadline", 1)
	}
	if c.Spec.FanKind == "cmd" {
		ctx.Count("cmd_fan_cases", 1)
	}
	if res.Panic != "" {
		ctx.Violation("panic-in-run:"+c.class(), res.Panic, c)
		return
	}
	// was the last PWM write a refused/ignored 255?
	refused := rig.lastPwmWriteRefused()
	touched := atomic.LoadInt64(&rig.Events) > 0
	if c.Spec.FanKind == "cmd" {
		w := rig.cmdWrites()
		touched = true
		refused = c.PwmFault == "refused" && len(w) > 0 && w[len(w)-1] == 255
	}
	ok, desc := rig.restoredOK(refused)
	if !ok && touched {
		ctx.Violation("fan-left-in-bad-state:"+c.class(), fmt.Sprintf("%s after Run returned (err=%v); stop at event %d of %d; case %s", desc, res.Err, eventsAtStop, atomic.LoadInt64(&rig.Events), jsonStr(c)), c)
	}
	if atomic.LoadInt32(&stopped) == 1 || c.Stall {
		ctx.Nontrivial(c.class() + fmt.Sprintf("|%d|%d", c.AtEvent, c.AfterMs/5))
		ctx.AddSet("classes", c.class())
	}
}

func genC03(r *rand.Rand) *c03Case {
	spec := RigSpec{FanKind: pick(r, "hwmon", "hwmon", "hwmon", "file"), SensorKind: "file", CurveKind: "linear", HasEnable: r.Intn(5) > 0, HasRpm: true,
		NeverStop: r.Intn(2) == 0, OrigMode: pick(r, 0, 1, 2, 2, 5), OrigPwm: pick(r, 0, 77, 255), Stored: r.Intn(3) > 0, Levels: pick(r, 4, 6), Window: 10, Theta: 0, Algo: pick(r, "direct", "pid")}
	c := &c03Case{Spec: spec, ModeFault: pick(r, "ok", "ok", "refused", "ignored", "stick1"), PwmFault: pick(r, "ok", "ok", "ok", "refused")}
	if spec.FanKind != "hwmon" || !spec.HasEnable {
		c.ModeFault = "ok"
	}
	// operating point: mostly mid-range, sometimes the curve is at its maximum / minimum when regulation stops
	c.Spec.TempMdeg = pick(r, 45000, 45000, 52000, 90000, 90000, 20000)
	c.PwmUnreadable = r.Intn(5) == 0
	if r.Intn(12) == 0 {
		// a cmd fan (no control mode, restore = set command); process spawns make it slow, so only time-based stops
		c.Spec.FanKind, c.Spec.HasEnable, c.Spec.Stored, c.ModeFault = "cmd", false, true, "ok"
		c.AfterMs = pick(r, 10, 60, 150, 400)
		c.Spec.OneTool = r.Intn(2) == 0
		c.HangBeforeStop = r.Intn(4) == 0
		return c
	}
	switch r.Intn(10) {
	case 0, 1, 2: // time based: start-up wait (40 ms), first-second delay (20 ms), ticking
		c.AfterMs = pick(r, 1, 10, 30, 45, 55, 70, 100, 150+r.Intn(200))
	case 3:
		if spec.FanKind == "hwmon" {
			c.Stall = true
			c.Spec.NeverStop, c.Spec.Window, c.Spec.Theta, c.Spec.Stored, c.Spec.Algo = true, 1, 256, true, "direct"
			c.PwmFault = "ok"
			if c.ModeFault == "refused" {
				c.ModeFault = "ignored"
			}
		} else {
			c.AfterMs = 100
		}
	default:
		max := int64(400)
		if !spec.Stored {
			max = 1500
		}
		c.AtEvent = 1 + r.Int63n(max)
		if r.Intn(3) == 0 {
			c.AtEvent = 1 + r.Int63n(12)
		}
	}
	return c
}

func init() {
	register("C03", func(ctx *Ctx) {
		ctx.AddSet("desktop_session", setupDesktop(ctx))
		n := ctx.N(960, 20000)
		for i := 0; i < n && !ctx.Abort; i++ {
			c := genC03(ctx.Rng)
			ctx.SampleKind(fmt.Sprintf("%v/%v", c.Stall, c.AtEvent > 0), map[string]interface{}{"kind": fmt.Sprintf("in-process stall=%v event-based=%v", c.Stall, c.AtEvent > 0), "case": c})
			runC03(ctx, c)
		}
	})
}
