package main

import (
	"context"
	"github.com/spf13/viper"
	"strings"
	"fmt"
	"math"
	"math/rand"
	"os"
	"os/user"
	"path/filepath"
	"strconv"

	"github.com/markusressel/fan2go/internal"
	"github.com/markusressel/fan2go/internal/configuration"
	"github.com/markusressel/fan2go/internal/sensors"
	"github.com/markusressel/fan2go/internal/statistics"
	"github.com/markusressel/fan2go/internal/util"
	"github.com/prometheus/client_golang/prometheus"
	"time"
)

// C08 — sensor smoothing stays within observed readings, converges, ignores failed reads.
//
// The real monitor step (updateSensor) is driven on real HwmonSensor / FileSensor
// (virtual driver) and CmdSensor (scripts) objects. Oracle per poll:
//   hull:        min(seen) - tau <= avg <= max(seen) + tau   (seen = initial value and all good readings)
//   convergence: on a repeated reading c: |avg' - c| <= (1 - 1/n) |avg - c| + tau
//   faults:      a poll whose read failed or produced NaN / +-Inf leaves avg bit-identical; avg stays finite

type c08Elem struct {
	Kind string  `json:"k"` // ok | missing | empty | nonnumeric | eio | eacces | exit1 | garbage | nan | inf | -inf | timeout
	Val  float64 `json:"v,omitempty"`
}

func (e c08Elem) fault() bool { return e.Kind != "ok" }

type c08Case struct {
	Sensor string    `json:"sensor"` // hwmon | file | cmd
	Window int       `json:"window"`
	Init   float64   `json:"init"`
	Seq    []c08Elem `json:"seq"`
}

type c08Rig struct {
	homeDir string
	sensor sensors.Sensor
	path   string // file or script state
	kind   string
	dir    string
}

func newC08Rig(ctx *Ctx, kind string) *c08Rig {
	installDriver()
	dir := ctx.Path(uniqueId("c08"))
	_ = os.MkdirAll(dir, 0755)
	rig := &c08Rig{kind: kind, dir: dir}
	switch kind {
	case "hwmon":
		rig.path = filepath.Join(dir, "temp1_input")
		_ = os.WriteFile(rig.path, []byte("0\n"), 0644)
		s, _ := sensors.NewSensor(configuration.SensorConfig{ID: uniqueId("c08s"), HwMon: &configuration.HwMonSensorConfig{Platform: "x", Index: 1, TempInput: rig.path}})
		rig.sensor = s
	case "file":
		rig.path = filepath.Join(dir, "temp")
		_ = os.WriteFile(rig.path, []byte("0\n"), 0644)
		s, _ := sensors.NewSensor(configuration.SensorConfig{ID: uniqueId("c08s"), File: &configuration.FileSensorConfig{Path: rig.path}})
		rig.sensor = s
	case "file-home":
		// the documented "~" form of a file sensor path; a scratch directory is created in the home directory and
		// removed again when the rig is closed
		home := "/root"
		if u, err := user.Current(); err == nil {
			home = u.HomeDir
		}
		rel := fmt.Sprintf("%s-%d-%d/temp", uniqueId(".fan2go-verif-c08"), os.Getpid(), ctx.Batch)
		rig.path = filepath.Join(home, rel)
		rig.homeDir = filepath.Dir(rig.path)
		_ = os.MkdirAll(rig.homeDir, 0755)
		_ = os.WriteFile(rig.path, []byte("0\n"), 0644)
		s, _ := sensors.NewSensor(configuration.SensorConfig{ID: uniqueId("c08s"), File: &configuration.FileSensorConfig{Path: "~/" + rel}})
		rig.sensor = s
	case "cmd":
		rig.path = filepath.Join(dir, "out")
		script := filepath.Join(dir, "sensor.sh")
		// the state file holds "<exit code>\n<sleep seconds>\n<output>"
		cmdScript(script, "read code < "+rig.path+".code; read slp < "+rig.path+".sleep; if [ \"$slp\" != 0 ]; then sleep $slp; fi; cat "+rig.path+".err >&2; cat "+rig.path+"; exit $code")
		s, _ := sensors.NewSensor(configuration.SensorConfig{ID: uniqueId("c08s"), Cmd: &configuration.CmdSensorConfig{Exec: script}})
		rig.sensor = s
	}
	return rig
}

func (rig *c08Rig) close() {
	_ = os.RemoveAll(rig.dir)
	if rig.homeDir != "" {
		_ = os.RemoveAll(rig.homeDir)
	}
}

func fmtReading(kind string, v float64) string {
	if kind == "cmd" {
		return strconv.FormatFloat(v, 'g', -1, 64)
	}
	return strconv.FormatInt(int64(v), 10)
}

// present arranges for the next read to behave like e
func (rig *c08Rig) present(e c08Elem) {
	d := driver
	d.Rules = nil
	if rig.kind == "cmd" {
		code, slp, out, errOut := "0", "0", "", ""
		switch e.Kind {
		case "ok":
			out = fmtReading("cmd", e.Val)
			if int64(math.Abs(e.Val))%4 == 1 {
				// diagnostics on stderr do not belong to the reading
				errOut = "warning: sensor bus busy, retried 2 times\n17\n"
			}
		case "stderr-only":
			// exit 0, nothing on stdout, a number on stderr: no reading
			out, errOut = "", "0\n"
		case "exit1":
			code, out = "1", "55000"
		case "garbage":
			out = "temp=55C"
		case "empty":
			out = ""
		case "nan":
			out = "nan"
		case "inf":
			out = "inf"
		case "-inf":
			out = "-Infinity"
		case "timeout":
			slp, out = "3", "55000"
		}
		_ = os.WriteFile(rig.path, []byte(out+"\n"), 0644)
		_ = os.WriteFile(rig.path+".err", []byte(errOut), 0644)
		_ = os.WriteFile(rig.path+".code", []byte(code+"\n"), 0644)
		_ = os.WriteFile(rig.path+".sleep", []byte(slp+"\n"), 0644)
		return
	}
	put := func(content string) { _ = os.WriteFile(rig.path, []byte(content), 0644) }
	switch e.Kind {
	case "ok":
		txt := fmtReading(rig.kind, e.Val)
		if e.Val >= 0 && int64(e.Val)%3 == 0 {
			// sysfs-style attributes may be zero padded or carry surrounding blanks; the value is decimal
			txt = " 0" + txt + " "
		}
		put(txt + "\n")
	case "missing":
		d.Rules = []*util.VerifRule{{Path: rig.path, Op: "r", Action: "fail", Errno: "ENOENT"}}
	case "eio":
		d.Rules = []*util.VerifRule{{Path: rig.path, Op: "r", Action: "fail", Errno: "EIO"}}
	case "eacces":
		d.Rules = []*util.VerifRule{{Path: rig.path, Op: "r", Action: "fail", Errno: "EACCES"}}
	case "empty":
		put("")
	case "nonnumeric":
		put("4x2\n")
	case "prefix-garbage":
		put("7 garbage\n")
	case "unit-suffix":
		put("3.3V\n")
	case "exponent":
		put("1e5\n")
	case "torn-write":
		put("6\x001000\n")
	case "hex":
		put("0x10\n")
	case "blank":
		put(" \n")
	case "newline":
		put("\n")
	case "nan-text":
		// text that spells a float but no integer reading: not a number a sysfs attribute or a value file holds
		put(pick(rand.New(rand.NewSource(int64(len(rig.path)))), "nan\n", "NaN\n"))
	case "inf-text":
		put("-Inf\n")
	}
}

func ulpTau(m float64) float64 {
	if m == 0 {
		return 0
	}
	return 4 * (math.Nextafter(math.Abs(m), math.Inf(1)) - math.Abs(m))
}

func checkC08(ctx *Ctx, rig *c08Rig, c *c08Case) {
	configuration.CurrentConfig.TempRollingWindowSize = c.Window
	configuration.CurrentConfig.RpmRollingWindowSize = 37 // a different, valid value: only the temperature window counts here
	if c.Window >= 1 && (c.Window <= 2 || hashStr(jsonStr(c))%8 == 0) {
		// the window as the user sets it: in a configuration file read by fan2go's loader
		if err := c08WindowViaLoader(ctx, c.Window); err != nil {
			ctx.Violation("config-path:documented-window-size-not-loadable", fmt.Sprintf("tempRollingWindowSize: %d: %v", c.Window, err), c)
			return
		}
	}
	s := rig.sensor
	s.SetMovingAvg(c.Init)
	lo, hi := c.Init, c.Init
	maxMag := math.Abs(c.Init)
	n := float64(c.Window)
	var prevGood *float64
	faults, goods := 0, 0
	class := rig.kind
	for i, e := range c.Seq {
		rig.present(e)
		before := s.GetMovingAvg()
		var err error
		panicked, msg := Guard(func() { err = internal.VerifUpdateSensor(s) })
		ctx.Eval(1)
		after := s.GetMovingAvg()
		if panicked {
			ctx.Violation("panic-in-sensor-update:"+class+":"+e.Kind, fmt.Sprintf("poll %d of %s: %s", i, jsonStr(c), msg), c)
			return
		}
		if e.fault() {
			faults++
			if math.Float64bits(after) != math.Float64bits(before) {
				sig := "failed-read-changed-average:"
				if e.Kind == "nan" || e.Kind == "inf" || e.Kind == "-inf" {
					sig = "non-finite-reading-accepted:"
				}
				ctx.Violation(sig+class+":"+e.Kind, fmt.Sprintf("poll %d (%s) of %s: smoothed value %v -> %v (error returned: %v)", i, e.Kind, jsonStr(c), before, after, err), c)
				return
			}
			continue
		}
		goods++
		v := e.Val
		if rig.kind != "cmd" {
			v = float64(int64(e.Val))
		}
		if err != nil {
			if rig.kind == "cmd" && c08TimeLimitError(err) {
				// fan2go's own time limits for commands (2 s deadline, 500 ms for the output pipes) are wall-clock: on an
				// overloaded machine a healthy command can run into them, and the read then is a failed read by design.
				// Counted; many of them make the run inconclusive, none of them is a verdict.
				ctx.Count("healthy_commands_that_ran_into_fan2gos_time_limits", 1)
				if after != before {
					ctx.Violation("failed-read-changed-average:"+class+":time-limit", fmt.Sprintf("poll %d of %s: %v; smoothed value %v -> %v", i, jsonStr(c), err, before, after), c)
				}
				return
			}
			ctx.Violation("good-read-reported-error:"+class, fmt.Sprintf("poll %d of %s: %v", i, jsonStr(c), err), c)
			return
		}
		if v < lo {
			lo = v
		}
		if v > hi {
			hi = v
		}
		if math.Abs(v) > maxMag {
			maxMag = math.Abs(v)
		}
		tau := ulpTau(maxMag)
		if math.IsNaN(after) || math.IsInf(after, 0) {
			ctx.Violation("average-not-finite:"+class, fmt.Sprintf("poll %d of %s: %v", i, jsonStr(c), after), c)
			return
		}
		if after < lo-tau || after > hi+tau {
			ctx.Violation("average-outside-hull:"+class, fmt.Sprintf("poll %d of %s: smoothed %v outside [%v, %v]", i, jsonStr(c), after, lo, hi), c)
			return
		}
		if prevGood != nil && *prevGood == v {
			// repeated reading: geometric approach
			if math.Abs(after-v) > (1-1/n)*math.Abs(before-v)+tau {
				ctx.Violation("no-geometric-convergence:"+class, fmt.Sprintf("poll %d of %s: reading %v, distance %v -> %v, factor %v", i, jsonStr(c), v, math.Abs(before-v), math.Abs(after-v), 1-1/n), c)
				return
			}
			ctx.Count("convergence_steps_checked", 1)
		}
		vv := v
		prevGood = &vv
	}
	if faults > 0 && goods > 0 {
		ctx.Nontrivial(hash64(jsonStr(c)))
		ctx.Count("sequences_with_faults_and_readings", 1)
	}
}

func c08Kinds(sensor string) []string {
	if sensor == "cmd" {
		return []string{"ok", "ok", "exit1", "garbage", "nan", "inf", "-inf", "empty", "stderr-only"}
	}
	return []string{"ok", "ok", "missing", "empty", "nonnumeric", "eio", "eacces", "prefix-garbage", "unit-suffix", "exponent", "torn-write", "hex", "blank", "nan-text", "inf-text"}
}

func c08Val(r *rand.Rand, sensor string) float64 {
	switch r.Intn(8) {
	case 0:
		return 0
	case 1:
		return float64(pick(r, -40000, 20000, 45000, 99000, 125000))
	case 2:
		if sensor == "cmd" {
			return pick(r, 1e300, -1e300, 1e-300, 0.5, 36600.25)
		}
		return float64(pick(r, math.MaxInt32, math.MinInt32, 1<<50, -(1 << 50)))
	default:
		return float64(20000 + r.Intn(70000))
	}
}

func init() {
	register("C08", func(ctx *Ctx) {
		r := ctx.Rng
		rigs := map[string]*c08Rig{}
		for _, k := range []string{"hwmon", "file", "file-home", "cmd"} {
			rigs[k] = newC08Rig(ctx, k)
			defer rigs[k].close()
		}
		// exhaustive short sequences: every placement of every fault kind
		maxLen := map[string]int{"hwmon": 3, "file": 4, "file-home": 3, "cmd": 3}
		if ctx.Thorough() {
			maxLen = map[string]int{"hwmon": 5, "file": 5, "file-home": 4, "cmd": 4}
		}
		idx := 0
		for _, sk := range []string{"hwmon", "file", "file-home", "cmd"} {
			kinds := c08Kinds(sk)[1:] // one "ok" entry
			for length := 1; length <= maxLen[sk]; length++ {
				total := 1
				for i := 0; i < length; i++ {
					total *= len(kinds)
				}
				for code := 0; code < total; code++ {
					idx++
					if idx%ctx.Of != ctx.Batch {
						continue
					}
					c := &c08Case{Sensor: sk, Window: pick(r, 1, 2, 3, 10, 100), Init: float64(30000 + r.Intn(30000))}
					x := code
					low, high := float64(20000+r.Intn(10000)), float64(70000+r.Intn(20000))
					for i := 0; i < length; i++ {
						k := kinds[x%len(kinds)]
						x /= len(kinds)
						e := c08Elem{Kind: k}
						if k == "ok" {
							e.Val = pick(r, low, high, low)
						}
						c.Seq = append(c.Seq, e)
					}
					ctx.SampleKind("exhaustive-"+sk, map[string]interface{}{"kind": "exhaustive-" + sk, "case": c})
					checkC08(ctx, rigs[sk], c)
				}
			}
		}
		ctx.Count("exhaustive_short_sequences", int64(idx))
		// long random sequences
		nr := ctx.N(12000, 300000)
		for i := 0; i < nr; i++ {
			sk := pick(r, "hwmon", "file", "file", "file-home")
			c := &c08Case{Sensor: sk, Window: pick(r, 1, 2, 3, 5, 10, 10, 50, 100, 1+r.Intn(100)), Init: c08Val(r, sk)}
			kinds := c08Kinds(sk)
			cur := c08Val(r, sk)
			for k := 0; k < 60; k++ {
				e := c08Elem{Kind: "ok"}
				if r.Intn(5) == 0 {
					e.Kind = kinds[r.Intn(len(kinds))]
				}
				if e.Kind == "ok" {
					if r.Intn(3) == 0 {
						cur = c08Val(r, sk)
					}
					e.Val = cur
				}
				c.Seq = append(c.Seq, e)
			}
			ctx.SampleKind("random", map[string]interface{}{"kind": "random", "sensor": sk, "window": c.Window, "init": c.Init, "first": c.Seq[:8]})
			checkC08(ctx, rigs[sk], c)
		}
		nc := ctx.N(160, 4000)
		for i := 0; i < nc; i++ {
			c := &c08Case{Sensor: "cmd", Window: pick(r, 1, 2, 10, 100), Init: c08Val(r, "cmd")}
			kinds := c08Kinds("cmd")
			cur := c08Val(r, "cmd")
			for k := 0; k < 12; k++ {
				e := c08Elem{Kind: "ok"}
				if r.Intn(4) == 0 {
					e.Kind = kinds[r.Intn(len(kinds))]
				}
				if e.Kind == "ok" {
					if r.Intn(3) == 0 {
						cur = c08Val(r, "cmd")
					}
					e.Val = cur
				}
				c.Seq = append(c.Seq, e)
			}
			checkC08(ctx, rigs["cmd"], c)
		}
		// the real monitor loop across an outage of the sensor
		if ctx.Batch%4 == 1 {
			c08MonitorOutage(ctx, r)
		}
		// the monitor's poll while a Prometheus scrape reads the same command sensor
		for i, ns := 0, ctx.N(3, 30); i < ns; i++ {
			c08WhileScraped(ctx, rigs["cmd"], r)
		}
		// command time-outs (2 s each): a few, only in batch 0 resp. spread in thorough
		nt := 0
		if ctx.Batch < 4 {
			nt = 1
		}
		if ctx.Thorough() {
			nt = 4
		}
		for i := 0; i < nt; i++ {
			c := &c08Case{Sensor: "cmd", Window: pick(r, 1, 10), Init: 40000, Seq: []c08Elem{{Kind: "ok", Val: 50000}, {Kind: "timeout"}, {Kind: "ok", Val: 50000}}}
			ctx.SampleKind("timeout", map[string]interface{}{"kind": "timeout", "case": c})
			checkC08(ctx, rigs["cmd"], c)
			ctx.Count("timeout_polls", 1)
		}
		if n := ctx.Res.Counters["healthy_commands_that_ran_into_fan2gos_time_limits"]; n > 20 {
			ctx.Inconclusive(fmt.Sprintf("%d healthy commands ran into fan2go's wall-clock limits for commands: the machine is too loaded for the cmd part of this check", n))
		}
	})
}

// c08WhileScraped: with statistics enabled every Prometheus scrape reads each sensor itself (the real
// statistics.SensorCollector). A slow command sensor is then being read by the scrape when the monitor's poll comes:
// the poll's outcome must be the same as without the scrape - a failing / garbage / non-finite read leaves the
// smoothed value bit-identical, a good one keeps it between the old value and the reading.
func c08WhileScraped(ctx *Ctx, rig *c08Rig, r *rand.Rand) {
	kind := pick(r, "exit1", "garbage", "nan", "empty", "exit1", "ok")
	window := pick(r, 1, 2, 10)
	configuration.CurrentConfig.TempRollingWindowSize = window
	s := rig.sensor
	init := float64(30000 + r.Intn(30000))
	s.SetMovingAvg(init)
	e := c08Elem{Kind: kind, Val: float64(60000 + r.Intn(1000)*4)}
	rig.present(e)
	_ = os.WriteFile(rig.path+".sleep", []byte("0.4\n"), 0644)
	c := map[string]interface{}{"scenario": "poll-while-a-prometheus-scrape-reads-the-sensor", "window": window, "init": init, "read": e}
	col := statistics.NewSensorCollector([]sensors.Sensor{s})
	ch := make(chan prometheus.Metric, 8)
	done := make(chan string, 1)
	go func() {
		_, msg := Guard(func() { col.Collect(ch) })
		done <- msg
	}()
	time.Sleep(120 * time.Millisecond) // the scrape's command is running now
	before := s.GetMovingAvg()
	var err error
	panicked, msg := Guard(func() { err = internal.VerifUpdateSensor(s) })
	ctx.Eval(1)
	after := s.GetMovingAvg()
	select {
	case m := <-done:
		if m != "" {
			ctx.Violation("panic-in-scrape-of-a-command-sensor:"+kind, m, c)
		}
	case <-time.After(30 * time.Second):
		ctx.Inconclusive("a scrape of a command sensor did not return within 30 s")
	}
	if panicked {
		ctx.Violation("panic-in-sensor-update:cmd:while-scraped:"+kind, msg, c)
		return
	}
	ctx.Count("polls_while_a_scrape_reads_the_sensor", 1)
	if e.fault() {
		if math.Float64bits(after) != math.Float64bits(before) {
			ctx.Violation("failed-read-changed-average:cmd:while-scraped:"+kind, fmt.Sprintf("%s: smoothed value %v -> %v (poll returned error %v)", jsonStr(c), before, after, err), c)
		}
	} else if lo, hi := math.Min(before, e.Val), math.Max(before, e.Val); after < lo-ulpTau(hi) || after > hi+ulpTau(hi) {
		ctx.Violation("average-outside-hull:cmd:while-scraped", fmt.Sprintf("%s: smoothed value %v -> %v", jsonStr(c), before, after), c)
	}
	ctx.Nontrivial(fmt.Sprintf("scraped|%s|%d", kind, window))
}

// c08MonitorOutage: the daemon's own monitor loop (internal.NewSensorMonitor(...).Run) on a file sensor whose file is
// gone for many polling periods (longer than the window) and then comes back with another reading. The smoothed value,
// sampled every 2 ms from outside, never leaves the range of the initial value and the two readings.
func c08MonitorOutage(ctx *Ctx, r *rand.Rand) {
	dir := ctx.Path(uniqueId("c08mon"))
	_ = os.MkdirAll(dir, 0755)
	defer os.RemoveAll(dir)
	path := filepath.Join(dir, "temp")
	a, b := float64(30000+r.Intn(20000)), float64(50000+r.Intn(30000))
	if r.Intn(2) == 0 {
		a, b = b, a
	}
	window := pick(r, 1, 2, 4, 10)
	configuration.CurrentConfig.TempRollingWindowSize = window
	_ = os.WriteFile(path, []byte(fmtReading("file", a)+"\n"), 0644)
	sn, err := sensors.NewSensor(configuration.SensorConfig{ID: uniqueId("c08mon"), File: &configuration.FileSensorConfig{Path: path}})
	if err != nil {
		ctx.Inconclusive("monitor outage: " + err.Error())
		return
	}
	sn.SetMovingAvg(a)
	desc := map[string]interface{}{"scenario": "monitor loop, polling rate 10 ms: reading A, file missing for 40 polling periods, reading B", "window": window, "a": a, "b": b}
	ctx.SampleKind("monitor-outage", desc)
	cctx, cancel := context.WithCancel(context.Background())
	done := make(chan string, 1)
	go func() {
		_, msg := Guard(func() { _ = internal.NewSensorMonitor(sn, 10*time.Millisecond).Run(cctx) })
		done <- msg
	}()
	lo, hi := math.Min(a, b), math.Max(a, b)
	worst, samples := 0.0, 0
	var worstAvg float64
	sample := func(d time.Duration) {
		for t0 := time.Now(); time.Since(t0) < d; time.Sleep(2 * time.Millisecond) {
			avg := sn.GetMovingAvg()
			samples++
			over := math.Max(lo-avg, avg-hi)
			if math.IsNaN(avg) {
				over = math.Inf(1)
			}
			if over > worst {
				worst, worstAvg = over, avg
			}
		}
	}
	sample(150 * time.Millisecond)
	_ = os.Rename(path, path+".gone")
	sample(400 * time.Millisecond)
	_ = os.WriteFile(path+".new", []byte(fmtReading("file", b)+"\n"), 0644)
	_ = os.Rename(path+".new", path)
	sample(400 * time.Millisecond)
	cancel()
	select {
	case msg := <-done:
		if msg != "" {
			ctx.Violation("monitor-outage:panic", msg, desc)
			return
		}
	case <-time.After(60 * time.Second):
		ctx.Inconclusive("monitor outage: the monitor did not stop within 60 s")
		return
	}
	ctx.Eval(int64(samples))
	if worst > ulpTau(hi) {
		ctx.Violation("average-outside-hull:file:monitor-loop-after-an-outage", fmt.Sprintf("%s: smoothed value %v observed, readings only ever %v and %v", jsonStr(desc), worstAvg, a, b), desc)
		return
	}
	ctx.Count("monitor_loop_samples_across_an_outage", int64(samples))
	ctx.Nontrivial(fmt.Sprintf("monitor-outage|%d|%v", window, a < b))
}

func c08TimeLimitError(err error) bool {
	msg := err.Error()
	for _, p := range []string{"WaitDelay expired", "deadline exceeded", "signal: killed", "timed out"} {
		if strings.Contains(msg, p) {
			return true
		}
	}
	return false
}

func c08WindowViaLoader(ctx *Ctx, window int) error {
	dir := ctx.Path(uniqueId("c08cfg"))
	_ = os.MkdirAll(dir, 0755)
	defer os.RemoveAll(dir)
	sf := filepath.Join(dir, "sensor")
	_ = os.WriteFile(sf, []byte("40000\n"), 0644)
	text := fmt.Sprintf("dbPath: %s/fan2go.db\ntempRollingWindowSize: %d\nrpmRollingWindowSize: 37\nsensors:\n  - id: s\n    file:\n      path: %s\ncurves:\n  - id: c\n    linear:\n      sensor: s\n      min: 40\n      max: 80\nfans:\n  - id: f\n    curve: c\n    file:\n      path: %s\n", dir, window, sf, sf)
	cfgPath := filepath.Join(dir, "fan2go.yaml")
	_ = os.WriteFile(cfgPath, []byte(text), 0644)
	viper.Reset()
	var lerr error
	if p, msg := Guard(func() {
		configuration.InitConfig(cfgPath)
		if lerr = viper.ReadInConfig(); lerr == nil {
			configuration.LoadConfig()
		}
	}); p {
		return fmt.Errorf("loader panicked: %s", firstLine(msg))
	}
	return lerr
}
