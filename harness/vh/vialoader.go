package main

import (
	"fmt"
	"os"
	"path/filepath"
	"sort"
	"strings"

	"github.com/markusressel/fan2go/internal/configuration"
	"github.com/spf13/viper"
)

// fanConfigViaLoader writes the fan entry the way a user would (documented YAML keys only) into a configuration file,
// has fan2go's own loader read it, and returns the entry as loaded. The derived sysfs paths of a hwmon fan, which the
// hwmon discovery fills in, are carried over from the original. Checks that build their fans from the result see what a
// user's configuration file really produces; the oracles stay the properties' own.
var loaderState configuration.Configuration
var loaderEntries int

// loaderWindow (Rpm > 0): the configuration file also sets both rolling-window sizes, the way a user sets them; what the
// loader made of them is left in loaderWindowLoaded for the caller to put into force.
var loaderWindow, loaderWindowLoaded struct{ Rpm, Temp int }

func fanConfigViaLoader(ctx *Ctx, cfg configuration.FanConfig) (configuration.FanConfig, error) {
	dir := ctx.Path(uniqueId("vialoader"))
	_ = os.MkdirAll(dir, 0755)
	defer os.RemoveAll(dir)
	sf := filepath.Join(dir, "sensor")
	_ = os.WriteFile(sf, []byte("40000\n"), 0644)
	var sb strings.Builder
	if loaderWindow.Rpm > 0 {
		fmt.Fprintf(&sb, "tempRollingWindowSize: %d\nrpmRollingWindowSize: %d\n", loaderWindow.Temp, loaderWindow.Rpm)
	}
	fmt.Fprintf(&sb, "dbPath: %s/fan2go.db\nsensors:\n  - id: vl-s\n    file:\n      path: %s\ncurves:\n  - id: %s\n    linear:\n      sensor: vl-s\n      min: 40\n      max: 80\nfans:\n  - id: %s\n    curve: %s\n", dir, sf, cfg.Curve, cfg.ID, cfg.Curve)
	if cfg.NeverStop {
		sb.WriteString("    neverStop: true\n")
	}
	// the entry also names its control algorithm in one of the supported ways, the deprecated controlLoop included;
	// that choice says nothing about limits, maps or paths
	loaderEntries++
	sb.WriteString([]string{"", "    controlAlgorithm: direct\n", "    controlAlgorithm: pid\n",
		"    controlLoop:\n      p: 0.3\n      i: 0.02\n      d: 0.005\n",
		"    controlAlgorithm:\n      direct:\n        maxPwmChangePerCycle: 10\n",
		"    controlLoop:\n      p: 0.1\n      i: 0.01\n      d: 0.001\n"}[loaderEntries%6])
	if cfg.MinPwm != nil {
		fmt.Fprintf(&sb, "    minPwm: %d\n", *cfg.MinPwm)
	}
	if cfg.StartPwm != nil {
		fmt.Fprintf(&sb, "    startPwm: %d\n", *cfg.StartPwm)
	}
	if cfg.MaxPwm != nil {
		fmt.Fprintf(&sb, "    maxPwm: %d\n", *cfg.MaxPwm)
	}
	if cfg.PwmMap != nil {
		sb.WriteString("    pwmMap:\n")
		var ks []int
		for k := range *cfg.PwmMap {
			ks = append(ks, k)
		}
		sort.Ints(ks)
		for _, k := range ks {
			fmt.Fprintf(&sb, "      %d: %d\n", k, (*cfg.PwmMap)[k])
		}
	}
	exe := func(key string, e *configuration.ExecConfig) {
		if e == nil {
			return
		}
		fmt.Fprintf(&sb, "      %s:\n        exec: %s\n", key, e.Exec)
		if len(e.Args) > 0 {
			sb.WriteString("        args:\n")
			for _, a := range e.Args {
				fmt.Fprintf(&sb, "          - %q\n", a)
			}
		}
	}
	switch {
	case cfg.HwMon != nil:
		fmt.Fprintf(&sb, "    hwmon:\n      platform: %s\n", cfg.HwMon.Platform)
		if cfg.HwMon.RpmChannel > 0 && (loaderEntries%2 == 0 || cfg.HwMon.Index <= 0) {
			fmt.Fprintf(&sb, "      rpmChannel: %d\n", cfg.HwMon.RpmChannel)
		} else {
			// the fan is selected by its position as `fan2go detect` prints it; the channels are filled in by the hwmon detection
			fmt.Fprintf(&sb, "      index: %d\n", cfg.HwMon.Index)
		}
		if cfg.HwMon.PwmChannel > 0 {
			fmt.Fprintf(&sb, "      pwmChannel: %d\n", cfg.HwMon.PwmChannel)
		}
	case cfg.File != nil:
		fmt.Fprintf(&sb, "    file:\n      path: %s\n", cfg.File.Path)
		if cfg.File.RpmPath != "" {
			fmt.Fprintf(&sb, "      rpmPath: %s\n", cfg.File.RpmPath)
		}
	case cfg.Cmd != nil:
		sb.WriteString("    cmd:\n")
		exe("setPwm", cfg.Cmd.SetPwm)
		exe("getPwm", cfg.Cmd.GetPwm)
		exe("getRpm", cfg.Cmd.GetRpm)
	}
	cfgPath := filepath.Join(dir, "fan2go.yaml")
	_ = os.WriteFile(cfgPath, []byte(sb.String()), 0644)
	saved := configuration.CurrentConfig
	// one process, one configuration after the other: the loader starts from what the previous load left behind
	configuration.CurrentConfig = loaderState
	viper.Reset()
	var lerr error
	var out configuration.FanConfig
	panicked, msg := Guard(func() {
		configuration.InitConfig(cfgPath)
		if lerr = viper.ReadInConfig(); lerr != nil {
			return
		}
		configuration.LoadConfig()
		// (every entry point validates what it has loaded before it builds its objects)
		// (a cmd fan without getPwm is not a configuration fan2go accepts; the harness keeps such write-only fans for the
		// controller paths they exercise and does not validate them)
		if !(cfg.Cmd != nil && cfg.Cmd.GetPwm == nil) {
			if lerr = configuration.Validate(cfgPath); lerr != nil {
				return
			}
		}
		if len(configuration.CurrentConfig.Fans) != 1 {
			lerr = fmt.Errorf("%d fan entries loaded", len(configuration.CurrentConfig.Fans))
			return
		}
		out = configuration.CurrentConfig.Fans[0]
	})
	// the harness keeps its own global settings (polling rates, windows ...): only the fan entry is taken
	loaderState = configuration.CurrentConfig
	loaderWindowLoaded.Rpm, loaderWindowLoaded.Temp = configuration.CurrentConfig.RpmRollingWindowSize, configuration.CurrentConfig.TempRollingWindowSize
	configuration.CurrentConfig = saved
	if panicked {
		return out, fmt.Errorf("loader panicked: %s", firstLine(msg))
	}
	if lerr != nil {
		return out, lerr
	}
	if cfg.HwMon != nil && out.HwMon != nil {
		out.HwMon.SysfsPath, out.HwMon.RpmInputPath, out.HwMon.PwmPath, out.HwMon.PwmEnablePath = cfg.HwMon.SysfsPath, cfg.HwMon.RpmInputPath, cfg.HwMon.PwmPath, cfg.HwMon.PwmEnablePath
		if out.HwMon.RpmChannel == 0 {
			out.HwMon.RpmChannel, out.HwMon.Index = cfg.HwMon.RpmChannel, cfg.HwMon.Index
		}
		if out.HwMon.PwmChannel == 0 {
			out.HwMon.PwmChannel = cfg.HwMon.PwmChannel
		}
	}
	return out, nil
}
