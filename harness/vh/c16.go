package main

import (
	"github.com/spf13/viper"
	"context"
	"fmt"
	"math/rand"
	"os"
	"path/filepath"
	"sort"
	"strconv"
	"strings"
	"sync"
	"sync/atomic"
	"time"

	"github.com/markusressel/fan2go/internal/configuration"
	"github.com/markusressel/fan2go/internal/control_loop"
	"github.com/markusressel/fan2go/internal/controller"
	"github.com/markusressel/fan2go/internal/fans"
	"github.com/markusressel/fan2go/internal/persistence"
	"github.com/markusressel/fan2go/internal/statistics"
	"github.com/prometheus/client_golang/prometheus"
	"github.com/markusressel/fan2go/internal/util"
)

// C16 — with parallel initialisation disabled, fans are analysed one at a time.
//
// 2..4 real controllers (hwmon fans on quantising virtual devices with different numbers of
// levels = different analysis lengths) start their analysis after random delays, either through
// RunInitializationSequence() or through Run(). Every device event carries a global sequence
// number. A fan's analysis interval is [its first write, the call that stores its RPM curve].
// Oracle (logical order, no clocks): with the option false no two intervals overlap. Positive
// control: the same workload with the option true must show at least one overlap.

type seqPersistence struct {
	inner persistence.Persistence
	mu    *sync.Mutex
	saved    map[string]int64 // fan id -> sequence number of SaveFanPwmData
	savedMap map[string]int64 // fan id -> sequence number of the last SaveFanPwmMap
}

func (p *seqPersistence) Init() error { return p.inner.Init() }
func (p *seqPersistence) LoadFanPwmData(fan fans.Fan) (map[int]float64, error) {
	return p.inner.LoadFanPwmData(fan)
}
func (p *seqPersistence) SaveFanPwmData(fan fans.Fan) error {
	driver.Mu.Lock()
	seq := driver.Seq
	driver.Mu.Unlock()
	p.mu.Lock()
	if _, ok := p.saved[fan.GetId()]; !ok {
		p.saved[fan.GetId()] = seq
	}
	p.mu.Unlock()
	return p.inner.SaveFanPwmData(fan)
}
func (p *seqPersistence) DeleteFanPwmData(fan fans.Fan) error          { return p.inner.DeleteFanPwmData(fan) }
func (p *seqPersistence) LoadFanPwmMap(id string) (map[int]int, error) { return p.inner.LoadFanPwmMap(id) }
func (p *seqPersistence) SaveFanPwmMap(id string, m map[int]int) error {
	driver.Mu.Lock()
	seq := driver.Seq
	driver.Mu.Unlock()
	p.mu.Lock()
	p.savedMap[id] = seq // the last one counts
	p.mu.Unlock()
	return p.inner.SaveFanPwmMap(id, m)
}
func (p *seqPersistence) DeleteFanPwmMap(id string) error              { return p.inner.DeleteFanPwmMap(id) }

type c16Case struct {
	Parallel bool  `json:"parallel"`
	ViaRun   bool  `json:"viaRun"`
	Levels   []int    `json:"levels"`   // per fan: quantiser levels (analysis length)
	DelaysMs []int    `json:"delaysMs"` // per fan: start delay
	Kinds    []string `json:"kinds"`    // per fan: hwmon | file (file fans are analysed = swept by computePwmMap on their first start)
	// Priors: what the (real bbolt) database holds for the fan before the start: "" nothing, "curve" a stored RPM curve
	// but no PWM map, "curve+corrupt-map" / "curve+wrong-shape-map" a stored RPM curve and an unreadable PWM map entry.
	// With a stored curve the start-up goes straight to the PWM-map sweep, which is an analysis like any other.
	Priors []string `json:"priors,omitempty"`
	// CfgMap: per fan, a pwmMap given in the fan's configuration entry (no sweep, but the RPM curve is still measured)
	CfgMap []bool `json:"cfgMap,omitempty"`
	// OptionVia: how the user gave runFanInitializationInParallel - "" set directly by the harness, "yaml" in the
	// configuration file, "env" as environment variable next to a configuration file named explicitly (-c)
	OptionVia string `json:"optionVia,omitempty"`
	// Scraped: a Prometheus scrape of the controller metrics (the real collector) every few milliseconds during the analyses
	Scraped bool `json:"scraped,omitempty"`
	// FailFirst: the analysis of the first fan fails part-way (its device refuses PWM writes from the RPM-curve phase on,
	// taking 100 ms to say so); the other fans are queued behind it
	FailFirst bool `json:"failFirst,omitempty"`
	// CancelEarly: the stop request (context cancellation, what SIGTERM does) arrives while the first fan is being
	// analysed and the others wait for their turn; analyses that still take place afterwards are serial all the same
	CancelEarly bool `json:"cancelEarly,omitempty"`
	// LateReadable: per fan (file fans), the number of initial reads of the PWM file that fail (the file is provided by
	// another program a moment after fan2go has started); whether the fan is then swept or given the default map is
	// fan2go's business, what is analysed is analysed serially
	LateReadable []int `json:"lateReadable,omitempty"`
}

func (c *c16Case) late(i int) int {
	if i < len(c.LateReadable) {
		return c.LateReadable[i]
	}
	return 0
}

func (c *c16Case) cfgMap(i int) bool { return i < len(c.CfgMap) && c.CfgMap[i] }

func (c *c16Case) prior(i int) string {
	if i < len(c.Priors) {
		return c.Priors[i]
	}
	return ""
}

func (c *c16Case) hasPriors() bool {
	for _, p := range c.Priors {
		if p != "" {
			return true
		}
	}
	return false
}

type c16Interval struct {
	Fan        int   `json:"fan"`
	First, End int64 `json:"-"`
	FirstS     int64 `json:"firstWriteSeq"`
	EndS       int64 `json:"storedSeq"`
}

func (c *c16Case) kind(i int) string {
	if i < len(c.Kinds) {
		return c.Kinds[i]
	}
	return "hwmon"
}

func runC16(ctx *Ctx, c *c16Case) (intervals []c16Interval, ok bool) {
	controller.VerifTimescale = 50
	d := installDriver()
	d.Mu.Lock()
	d.Rules = nil
	d.Hook = nil
	d.Seq = 0
	d.Mu.Unlock()
	configuration.CurrentConfig.RunFanInitializationInParallel = c.Parallel
	if c.OptionVia != "" {
		// the option as the real loader delivers it
		cdir := ctx.Path(uniqueId("c16cfg"))
		_ = os.MkdirAll(cdir, 0755)
		defer os.RemoveAll(cdir)
		sf := filepath.Join(cdir, "sensor")
		_ = os.WriteFile(sf, []byte("40000\n"), 0644)
		text := fmt.Sprintf("dbPath: %s/fan2go.db\nsensors:\n  - id: s\n    file:\n      path: %s\ncurves:\n  - id: c\n    linear:\n      sensor: s\n      min: 40\n      max: 80\nfans:\n  - id: f\n    curve: c\n    file:\n      path: %s\n", cdir, sf, sf)
		// the neighbouring initialisation settings with unusual but accepted values (a negative delay is no delay; the settle
		// threshold is irrelevant for fans without tachometer); the harness puts its own values into force after the load
		text += []string{"", "fanResponseDelay: -1\n", "maxRpmDiffForSettledFan: 0\n", "fanResponseDelay: 0\nmaxRpmDiffForSettledFan: -5\n", ""}[int(hashStr(jsonStr(c))/7)%5]
		const envKey = "RUNFANINITIALIZATIONINPARALLEL"
		_ = os.Unsetenv(envKey)
		// every spelling strconv.ParseBool understands (viper's own conversion)
		spell := map[bool][]string{false: {"false", "False", "FALSE", "f", "F", "0"}, true: {"true", "True", "TRUE", "t", "T", "1"}}[c.Parallel]
		word := spell[int(hashStr(jsonStr(c)))%len(spell)]
		if c.OptionVia == "yaml" {
			if int(hashStr(jsonStr(c)))%2 == 0 {
				text += fmt.Sprintf("runFanInitializationInParallel: %v\n", c.Parallel)
			} else {
				text += fmt.Sprintf("runFanInitializationInParallel: %q\n", word)
			}
		} else {
			_ = os.Setenv(envKey, word)
			defer os.Unsetenv(envKey)
		}
		cfgPath := filepath.Join(cdir, "fan2go.yaml")
		_ = os.WriteFile(cfgPath, []byte(text), 0644)
		viper.Reset()
		var lerr error
		if p, msg := Guard(func() {
			configuration.InitConfig(cfgPath)
			if lerr = viper.ReadInConfig(); lerr == nil {
				configuration.LoadConfig()
			}
		}); p || lerr != nil {
			ctx.Inconclusive(fmt.Sprintf("C16: option via %s: configuration not loadable: %v %s", c.OptionVia, lerr, firstLine(msg)))
			return nil, false
		}
	}
	configuration.CurrentConfig.RpmPollingRate = 5 * time.Millisecond
	configuration.CurrentConfig.TempSensorPollingRate = 5 * time.Millisecond
	configuration.CurrentConfig.ControllerAdjustmentTickRate = 5 * time.Millisecond
	configuration.CurrentConfig.RpmRollingWindowSize = 10
	configuration.CurrentConfig.MaxRpmDiffForSettledFan = 20
	configuration.CurrentConfig.FanResponseDelay = 0
	n := len(c.Levels)
	curve := newScriptCurve()
	curve.Val = 100
	dir := ctx.Path(uniqueId("c16"))
	_ = os.MkdirAll(dir, 0755)
	defer os.RemoveAll(dir)
	first := make([]int64, n)
	var fmu sync.Mutex
	pathFan := map[string]int{}
	var ctrls []controller.FanController
	var ids []string
	var mu sync.Mutex
	var inner persistence.Persistence = newMemPersistence()
	dbPath := filepath.Join(dir, "fan2go.db")
	if c.hasPriors() {
		// the real database: only it distinguishes a missing entry from an unreadable one
		inner = persistence.NewPersistence(dbPath)
		if err := inner.Init(); err != nil {
			ctx.Inconclusive("database: " + err.Error())
			return nil, false
		}
	}
	sp := &seqPersistence{inner: inner, mu: &mu, saved: map[string]int64{}, savedMap: map[string]int64{}}
	var paths []string
	for i := 0; i < n; i++ {
		fdir := filepath.Join(dir, fmt.Sprintf("hwmon%d", i))
		_ = os.MkdirAll(fdir, 0755)
		pwm, en, rpm := filepath.Join(fdir, "pwm1"), filepath.Join(fdir, "pwm1_enable"), filepath.Join(fdir, "fan1_input")
		for _, p := range []string{pwm, en, rpm} {
			_ = os.WriteFile(p, []byte("0"), 0644)
		}
		d.Mu.Lock()
		d.Mem[pwm], d.Mem[en] = "120", "2"
		d.Plants[rpm] = &util.VerifPlant{RpmPath: rpm, PwmPath: pwm, Kind: "linear", MaxRpm: 2000}
		if c.FailFirst && i == 0 {
			d.Rules = append(d.Rules, &util.VerifRule{Path: pwm, Op: "w", From: 257, Action: "fail", Errno: "EIO", DelayMs: 100})
		}
		if k := c.late(i); k > 0 {
			d.Rules = append(d.Rules, &util.VerifRule{Path: pwm, Op: "r", To: k, Action: "fail", Errno: "ENOENT"})
		}
		d.Rules = append(d.Rules, &util.VerifRule{Path: pwm, Op: "w", Action: "quant", Val: c.Levels[i]})
		d.Mu.Unlock()
		paths = append(paths, pwm, en, rpm)
		pathFan[pwm], pathFan[en] = i, i
		id := uniqueId("c16fan")
		ids = append(ids, id)
		fcfg := configuration.FanConfig{ID: id, Curve: curve.Id, HwMon: &configuration.HwMonFanConfig{Platform: "c16", Index: 1, RpmChannel: 1, PwmChannel: 1,
			SysfsPath: fdir, RpmInputPath: rpm, PwmPath: pwm, PwmEnablePath: en}}
		if c.kind(i) == "file" {
			fcfg = configuration.FanConfig{ID: id, Curve: curve.Id, File: &configuration.FileFanConfig{Path: pwm, RpmPath: rpm}}
		}
		if c.cfgMap(i) {
			m := map[int]int{}
			for k := 0; k <= 255; k++ {
				m[k] = k
			}
			fcfg.PwmMap = &m
		}
		fan, _ := fans.NewFan(fcfg)
		if pr := c.prior(i); pr != "" {
			data := map[int]float64{}
			for k := 0; k <= 255; k++ {
				data[k] = float64(k) / 255 * 2000
			}
			_ = fan.AttachFanRpmCurveData(&data)
			if err := inner.SaveFanPwmData(fan); err != nil {
				ctx.Inconclusive("storing the prior RPM curve: " + err.Error())
				return nil, false
			}
			switch pr {
			case "curve+corrupt-map":
				_ = plantRaw(dbPath, "map", id, "{\"0\":0,\"255\":")
			case "curve+wrong-shape-map":
				_ = plantRaw(dbPath, "map", id, "[1,2,3]")
			}
		}
		ctrls = append(ctrls, controller.NewFanController(sp, fan, control_loop.NewDirectControlLoop(nil), 5*time.Millisecond))
	}
	d.Mu.Lock()
	d.Hook = func(ev *util.VerifEvent) {
		if ev.Op != "w" {
			return
		}
		if i, ok := pathFan[ev.Path]; ok {
			fmu.Lock()
			if first[i] == 0 {
				first[i] = ev.Seq
			}
			fmu.Unlock()
		}
	}
	d.Mu.Unlock()
	cctx, cancel := context.WithCancel(context.Background())
	var wg sync.WaitGroup
	var firstFailed int32
	if c.Scraped {
		col := statistics.NewControllerCollector(ctrls)
		wg.Add(1)
		go func() {
			defer wg.Done()
			for cctx.Err() == nil {
				ch := make(chan prometheus.Metric, 16*len(ctrls)+16)
				_, _ = Guard(func() { col.Collect(ch) })
				time.Sleep(2 * time.Millisecond)
			}
		}()
	}
	for i := 0; i < n; i++ {
		wg.Add(1)
		go func(i int) {
			defer wg.Done()
			time.Sleep(time.Duration(c.DelaysMs[i]) * time.Millisecond)
			if c.FailFirst && i == 0 {
				_ = ctrls[i].RunInitializationSequence()
				atomic.StoreInt32(&firstFailed, 1)
				return
			}
			if c.ViaRun || c.kind(i) == "file" || c.prior(i) != "" {
				_ = ctrls[i].Run(cctx)
			} else {
				_ = ctrls[i].RunInitializationSequence()
			}
		}(i)
	}
	if c.CancelEarly {
		for t0 := time.Now(); time.Since(t0) < 30*time.Second; time.Sleep(time.Millisecond) {
			fmu.Lock()
			began := first[0] != 0
			fmu.Unlock()
			if began {
				break
			}
		}
		time.Sleep(40 * time.Millisecond)
		cancel()
	}
	// wait until every fan's RPM curve was stored (logical condition, generous limit)
	deadline := time.Now().Add(90 * time.Second)
	for time.Now().Before(deadline) {
		mu.Lock()
		finished := 0
		for i := 0; i < n; i++ {
			if c.FailFirst && i == 0 {
				if atomic.LoadInt32(&firstFailed) == 1 {
					finished++
				}
				continue
			}
			mapOnly := (c.kind(i) == "file" || c.prior(i) != "") && !c.cfgMap(i) // the analysis ends with the stored PWM map
			if _, ok := sp.saved[ids[i]]; ok && !mapOnly {
				finished++
			}
			if _, ok := sp.savedMap[ids[i]]; ok && mapOnly {
				finished++
			}
		}
		mu.Unlock()
		if finished == n {
			// (a file fan stores its default RPM data first and its measured PWM map after the sweep)
			break
		}
		time.Sleep(5 * time.Millisecond)
	}
	cancel()
	waited := make(chan struct{})
	go func() { wg.Wait(); close(waited) }()
	select {
	case <-waited:
	case <-time.After(60 * time.Second):
		ctx.Inconclusive("controllers did not finish: " + jsonStr(c))
		ctx.Abort = true
		return nil, false
	}
	d.Mu.Lock()
	d.Hook = nil
	d.Rules = nil
	for _, p := range paths {
		delete(d.Mem, p)
		delete(d.Plants, p)
	}
	d.Mu.Unlock()
	mu.Lock()
	defer mu.Unlock()
	for i := 0; i < n; i++ {
		if c.FailFirst && i == 0 {
			continue // (its analysis ended with an error; the fans behind it are what is looked at)
		}
		end := sp.saved[ids[i]]
		if sp.savedMap[ids[i]] > end {
			end = sp.savedMap[ids[i]]
		}
		if c.late(i) > 0 && end != 0 && (first[i] == 0 || first[i] > end) {
			// no device write before the map was stored: the fan was given the default map, there was no analysis
			ctx.Count("late_readable_fans_not_swept", 1)
			continue
		}
		if c.late(i) > 0 && end != 0 {
			ctx.Count("late_readable_fans_swept", 1)
		}
		if end == 0 || first[i] == 0 {
			ctx.Inconclusive(fmt.Sprintf("analysis of fan %d did not finish: %s", i, jsonStr(c)))
			return nil, false
		}
		intervals = append(intervals, c16Interval{Fan: i, FirstS: first[i], EndS: end})
	}
	return intervals, true
}

func c16Overlaps(iv []c16Interval) (int, string) {
	sort.Slice(iv, func(a, b int) bool { return iv[a].FirstS < iv[b].FirstS })
	n := 0
	desc := ""
	for a := 0; a < len(iv); a++ {
		for b := a + 1; b < len(iv); b++ {
			if iv[b].FirstS < iv[a].EndS {
				n++
				if desc == "" {
					desc = fmt.Sprintf("fan %d analysed during events [%d, %d], fan %d during [%d, %d]", iv[a].Fan, iv[a].FirstS, iv[a].EndS, iv[b].Fan, iv[b].FirstS, iv[b].EndS)
				}
			}
		}
	}
	return n, desc
}

// genC16Late: a hwmon fan and one or two file fans whose PWM file cannot be read at first (k failing reads)
func genC16Late(r *rand.Rand, k int) *c16Case {
	c := &c16Case{ViaRun: true, Kinds: []string{"hwmon", "file"}, Levels: []int{pick(r, 6, 9), pick(r, 3, 4, 6)}, DelaysMs: []int{0, pick(r, 0, 0, 5, 20)}, LateReadable: []int{0, k}}
	if r.Intn(2) == 0 {
		c.Kinds, c.Levels, c.DelaysMs, c.LateReadable = append(c.Kinds, "file"), append(c.Levels, pick(r, 3, 4)), append(c.DelaysMs, pick(r, 0, 10)), append(c.LateReadable, pick(r, 0, k, 1+r.Intn(4)))
	}
	return c
}

func genC16(r *rand.Rand) *c16Case {
	n := 2 + r.Intn(3)
	c := &c16Case{ViaRun: r.Intn(2) == 0}
	for i := 0; i < n; i++ {
		c.Levels = append(c.Levels, pick(r, 3, 4, 6, 9))
		c.DelaysMs = append(c.DelaysMs, pick(r, 0, 0, 5, 20, 60, r.Intn(150)))
		c.Kinds = append(c.Kinds, pick(r, "hwmon", "hwmon", "file"))
	}
	c.OptionVia = pick(r, "", "", "yaml", "env")
	c.Scraped = r.Intn(2) == 0
	if r.Intn(5) == 0 {
		// hwmon fans started together through Run(); the stop request comes during the first analysis
		c.Kinds = nil
		for range c.Levels {
			c.Kinds = append(c.Kinds, "hwmon")
		}
		for i := range c.DelaysMs {
			c.DelaysMs[i] = i * 15
		}
		c.ViaRun, c.CancelEarly, c.Scraped = true, true, false
		return c
	}
	if r.Intn(4) == 0 {
		// three hwmon fans, the first one's analysis fails while the two others wait
		c.Levels, c.Kinds, c.DelaysMs = []int{3, pick(r, 3, 4), pick(r, 3, 4)}, []string{"hwmon", "hwmon", "hwmon"}, []int{0, 20 + r.Intn(20), 50 + r.Intn(30)}
		c.FailFirst, c.ViaRun, c.Scraped = true, false, false
		return c
	}
	if r.Intn(4) == 0 {
		// some hwmon fans carry a pwmMap in their configuration entry
		for i := 0; i < n; i++ {
			c.CfgMap = append(c.CfgMap, c.Kinds[i] == "hwmon" && r.Intn(3) > 0)
		}
	} else if r.Intn(3) == 0 {
		for i := 0; i < n; i++ {
			c.Priors = append(c.Priors, pick(r, "", "curve", "curve+corrupt-map", "curve+corrupt-map", "curve+wrong-shape-map"))
		}
	}
	return c
}

func init() {
	register("C16", func(ctx *Ctx) {
		n := ctx.N(48, 600)
		for i := 0; i < n && !ctx.Abort; i++ {
			c := genC16(ctx.Rng)
			if g := ctx.Batch*n + i; g%4 == 0 {
				c = genC16Late(ctx.Rng, 1+(g/4)%4)
			}
			ctx.LogCase(map[string]interface{}{"class": "process-died-during-analysis", "case": c})
			// the property: option false
			c.Parallel = false
			iv, ok := runC16(ctx, c)
			if !ok {
				continue
			}
			ctx.Eval(1)
			cnt, desc := c16Overlaps(iv)
			class := fmt.Sprintf("fans=%d:viaRun=%v:fileFans=%d", len(c.Levels), c.ViaRun, strings.Count(strings.Join(c.Kinds, ","), "file"))
			if c.Scraped {
				class += ":scraped"
			}
			if c.FailFirst {
				class += ":first-analysis-fails"
			}
			if c.CancelEarly {
				class += ":stop-request-during-the-first-analysis"
			}
			if len(c.LateReadable) > 0 {
				class += ":pwm-file-readable-late"
			}
			if c.OptionVia != "" {
				class += ":option-via-" + c.OptionVia
			}
			if len(c.CfgMap) > 0 {
				class += fmt.Sprintf(":configuredPwmMap=%d", strings.Count(fmt.Sprint(c.CfgMap), "true"))
			}
			if c.hasPriors() {
				stored, unreadable := 0, 0
				for _, pr := range c.Priors {
					if pr != "" {
						stored++
					}
					if strings.HasSuffix(pr, "-map") {
						unreadable++
					}
				}
				class += fmt.Sprintf(":storedCurve=%d:unreadableMap=%d", stored, unreadable)
			}
			ctx.SampleKind(class, map[string]interface{}{"kind": class, "case": c, "intervals_in_event_sequence_numbers": iv})
			if cnt > 0 {
				ctx.Violation("analyses-overlap-although-parallel-initialisation-is-off:"+class, fmt.Sprintf("%s; case %s", desc, jsonStr(c)), c)
			}
			// positive control: option true must show overlap on the same workload
			c2 := *c
			c2.Parallel = true
			iv2, ok := runC16(ctx, &c2)
			if !ok {
				continue
			}
			ctx.Eval(1)
			cnt2, _ := c16Overlaps(iv2)
			if cnt2 > 0 {
				ctx.Count("positive_control_overlaps_seen", int64(cnt2))
				ctx.Nontrivial(class + "|" + strings.Trim(strings.Join(strings.Fields(fmt.Sprint(c.Levels, c.DelaysMs)), ","), "[]") + "|" + strconv.Itoa(i))
			} else {
				ctx.Count("positive_control_without_overlap", 1)
			}
		}
	})
}
