package main

import (
	"context"
	"fmt"
	"os"
	"path/filepath"
	"strings"
	"sync"
	"sync/atomic"
	"time"

	"github.com/markusressel/fan2go/internal"
	"github.com/markusressel/fan2go/internal/configuration"
	"github.com/markusressel/fan2go/internal/fans"
	"github.com/markusressel/fan2go/internal/sensors"
	"github.com/markusressel/fan2go/internal/ui"
	"github.com/markusressel/fan2go/internal/util"
)

// C19 — external commands cannot hang or crash fan2go.
//
// Failure-mode enumeration x timeouts through util.SafeCmdExecution and the cmd
// fan / cmd sensor wrappers. Oracle per call: no panic; result is (trimmed
// output, nil) or ("", err != nil); a call cut off by its deadline returns an
// error; elapsed <= timeout + 1.0 s. This is the one wall-clock oracle (the
// property is a wall-clock bound): offending scripts sleep timeout + 4 s, so a
// real violation lands >= 3 s beyond the limit; an elapsed time in
// (timeout+1.0, timeout+2.5) is retried serially and reported inconclusive if
// it stays there.

type c19Case struct {
	Mode      string  `json:"mode"`
	TimeoutS  float64 `json:"timeout_s"`
	Via       string  `json:"via"`
	class     string
	script    string // shell body ("" = special construction)
	wantOut   string // expected output when err == nil
	mustErr   bool   // the call must report an error
	mayOutput bool   // ("<wantOut>", nil) acceptable
	mayErr    bool   // an error is acceptable as well
	anyOut    bool   // the exact form of the returned output is not asserted
}

func c19Cases(timeout float64) []c19Case {
	over := fmt.Sprintf("%.1f", timeout+4)
	return []c19Case{
		{Mode: "ok", script: "echo 42", wantOut: "42", mayOutput: true},
		{Mode: "ok-with-stderr", script: "echo 'warning: retried' >&2; echo 42", wantOut: "42", mayOutput: true},
		{Mode: "ok-multiline", script: "printf '\\n1\\n2\\n\\n'", wantOut: "1\n2", mayOutput: true},
		{Mode: "exit1-with-output", script: "echo 17; echo oops >&2; exit 1", mustErr: true},
		{Mode: "exit3-no-output", script: "exit 3", mustErr: true},
		// a failing tool that is verbose about it: tens of thousands of short lines on stderr (what os/exec keeps of them
		// ends up in fan2go's log)
		{Mode: "exit3-with-many-stderr-lines", script: "yes x | head -c 200000 >&2; exit 3", mustErr: true},
		{Mode: "many-stdout-lines", script: "yes x | head -c 200000", mayOutput: true, mayErr: true, anyOut: true},
		// ... and the same amounts without a single line break, or with a line break only far into the text (a JSON or hex
		// blob, a "\r" progress bar), and at the sizes around what fan2go keeps of it for its log
		{Mode: "exit3-with-one-long-stderr-line", script: "head -c 100000 /dev/zero | tr '\\0' 'x' >&2; exit 3", mustErr: true},
		{Mode: "exit3-with-long-first-stderr-line", script: "head -c 5000 /dev/zero | tr '\\0' 'x' >&2; echo >&2; echo detail >&2; exit 3", mustErr: true},
		{Mode: "exit3-with-2048-stderr-bytes", script: "head -c 2048 /dev/zero | tr '\\0' 'x' >&2; exit 3", mustErr: true},
		{Mode: "exit3-with-2049-stderr-bytes", script: "head -c 2049 /dev/zero | tr '\\0' 'x' >&2; exit 3", mustErr: true},
		{Mode: "exit3-with-2049-stderr-bytes-ending-in-a-line-break", script: "head -c 2048 /dev/zero | tr '\\0' 'x' >&2; echo >&2; exit 3", mustErr: true},
		{Mode: "exit3-with-stderr-starting-with-a-line-break", script: "echo >&2; head -c 5000 /dev/zero | tr '\\0' 'x' >&2; exit 3", mustErr: true},
		{Mode: "exit1-with-binary-stderr", script: "head -c 5000 /dev/urandom >&2; exit 1", mustErr: true},
		{Mode: "exit0-with-one-long-stderr-line", script: "head -c 100000 /dev/zero | tr '\\0' 'x' >&2; echo 42", wantOut: "42", mayOutput: true, mayErr: true},
		{Mode: "one-long-stdout-line", script: "head -c 100000 /dev/zero | tr '\\0' 'x'", mayOutput: true, mayErr: true, anyOut: true},
		{Mode: "exit0-with-many-stderr-lines", script: "yes 'warning: retry' | head -c 200000 >&2; echo 42", wantOut: "42", mayOutput: true},
		{Mode: "killed-by-signal", script: "kill -9 $$", mustErr: true},
		{Mode: "not-executable", mustErr: true},
		{Mode: "missing", mustErr: true},
		{Mode: "dangling-symlink", mustErr: true},
		{Mode: "symlink-loop", mustErr: true},
		{Mode: "symlink-to-itself", mustErr: true},
		{Mode: "parent-is-a-file", mustErr: true},
		{Mode: "is-a-directory", mustErr: true},
		{Mode: "name-too-long", mustErr: true},
		{Mode: "path-too-long", mustErr: true},
		{Mode: "unsearchable-parent-symlink", mustErr: true},
		{Mode: "bad-exec-format", mustErr: true},
		{Mode: "missing-interpreter", mustErr: true},
		// scripts without a "#!" line (the kernel refuses them, a shell would run them): an error or the output,
		// but within the bound whatever the script then does
		{Mode: "no-shebang-prints-value", script: "echo 42", mayErr: true, mayOutput: true, wantOut: "42"},
		{Mode: "no-shebang-sleeps-beyond-deadline", script: "sleep " + over + "; echo 5", mustErr: true},
		{Mode: "no-shebang-grandchild-holds-stdout", script: "(sleep " + over + " &) ; echo 42; exit 0", mayErr: true, mayOutput: true, wantOut: "42"},
		{Mode: "vanishing", mayErr: true, mayOutput: true, wantOut: "7"},
		// the executable is held open for writing by someone (updater, editor): it cannot be started (ETXTBSY)
		{Mode: "text-file-busy", mustErr: true},
		{Mode: "sleep-beyond-deadline-exec", script: "exec sleep " + over, mustErr: true},
		{Mode: "sleep-beyond-deadline-child", script: "sleep " + over + "; echo 5", mustErr: true},
		{Mode: "sleep-ignoring-sigterm", script: "trap '' TERM INT HUP; sleep " + over + "; echo 5", mustErr: true},
		{Mode: "grandchild-holds-stdout", script: "(sleep " + over + " &) ; echo 42; exit 0", wantOut: "42", mayOutput: true, mayErr: true},
		// the straggler keeps stdout only (its stderr goes elsewhere): nothing else of the command's pipes stays open
		{Mode: "grandchild-holds-stdout-only", script: "(sleep " + over + " 2>/dev/null &) ; echo 42; exit 0", wantOut: "42", mayOutput: true, mayErr: true},
		{Mode: "grandchild-holds-stdout-only-exit1", script: "(sleep " + over + " 2>/dev/null &) ; echo 42; exit 1", mustErr: true},
		{Mode: "grandchild-holds-stdout-exit1", script: "(sleep " + over + " &) ; echo 42; exit 1", mustErr: true},
		{Mode: "empty-output", script: "true", wantOut: "", mayOutput: true},
		// blank but not zero-length output: whatever is returned, the call returns
		{Mode: "blank-output-space", script: "printf ' '", mayOutput: true, mayErr: true, anyOut: true},
		{Mode: "blank-output-tab", script: "printf '\\t'", mayOutput: true, mayErr: true, anyOut: true},
		{Mode: "blank-output-crlf", script: "printf '\\r\\n'", mayOutput: true, mayErr: true, anyOut: true},
		{Mode: "blank-output-lines", script: "printf '\\n \\n'", mayOutput: true, mayErr: true, anyOut: true},
		{Mode: "value-with-unit", script: "echo '45.5 C'", mayOutput: true, mayErr: true, anyOut: true},
		{Mode: "non-numeric-output", script: "echo 'hello world'", wantOut: "hello world", mayOutput: true},
		{Mode: "huge-output", script: "head -c 50000000 /dev/zero | tr '\\0' 'x'", wantOut: "<huge>", mayOutput: true, mayErr: true},
	}
}

// c19Path: the configured exec path of case n
func c19Path(dir string, c *c19Case, n int) string {
	base := filepath.Join(dir, fmt.Sprintf("cmd-%d.sh", n))
	switch c.Mode {
	case "parent-is-a-file":
		return filepath.Join(base, "run.sh")
	case "name-too-long":
		return filepath.Join(dir, fmt.Sprintf("cmd-%d-%s.sh", n, strings.Repeat("x", 300)))
	case "path-too-long":
		return filepath.Join(dir, fmt.Sprintf("cmd-%d", n), strings.Repeat(strings.Repeat("d", 200)+"/", 25)+"run.sh")
	}
	return base
}

func c19Build(dir string, c *c19Case, n int) string {
	path := c19Path(dir, c, n)
	_ = os.Remove(path)
	switch c.Mode {
	case "missing", "name-too-long", "path-too-long":
		// nothing there
	case "dangling-symlink":
		_ = os.Symlink(filepath.Join(dir, fmt.Sprintf("nowhere-%d", n)), path)
	case "symlink-loop":
		other := path + ".peer"
		_ = os.Remove(other)
		_ = os.Symlink(other, path)
		_ = os.Symlink(path, other)
	case "symlink-to-itself":
		_ = os.Symlink(path, path)
	case "parent-is-a-file":
		_ = os.WriteFile(filepath.Dir(path), []byte("#!/bin/sh\necho 1\n"), 0755)
	case "is-a-directory":
		_ = os.Mkdir(path, 0755)
	case "unsearchable-parent-symlink":
		// a symlink into a directory that does not exist any more
		d := path + ".d"
		_ = os.MkdirAll(d, 0755)
		_ = os.Symlink(filepath.Join(d, "gone", "run.sh"), path)
	case "not-executable":
		_ = os.WriteFile(path, []byte("#!/bin/sh\necho 1\n"), 0644)
	case "bad-exec-format":
		_ = os.WriteFile(path, []byte{0x7f, 'X', 'Y', 'Z', 0, 1, 2, 3, 4, 5, 6, 7}, 0755)
	case "missing-interpreter":
		_ = os.WriteFile(path, []byte("#!/nonexistent/interpreter\necho 1\n"), 0755)
	case "no-shebang-prints-value", "no-shebang-sleeps-beyond-deadline", "no-shebang-grandchild-holds-stdout":
		_ = os.WriteFile(path, []byte(c.script+"\n"), 0755)
	case "vanishing", "text-file-busy":
		_ = os.WriteFile(path, []byte("#!/bin/sh\necho 7\n"), 0755)
	default:
		_ = os.WriteFile(path, []byte("#!/bin/sh\n"+c.script+"\n"), 0755)
	}
	return path
}

type c19Result struct {
	blocked  bool
	out      string
	err      error
	panicMsg string
	elapsed  time.Duration
}

// c19Call runs the call on its own goroutine: a call that has not returned 8 s after its deadline is reported as
// blocked (that is 3x beyond the violation threshold) instead of blocking the whole batch.
func c19Call(via string, path string, timeout time.Duration) c19Result {
	ch := make(chan c19Result, 1)
	t0 := time.Now()
	go func() { ch <- c19CallInner(via, path, timeout) }()
	select {
	case r := <-ch:
		return r
	case <-time.After(timeout + 8*time.Second):
		return c19Result{err: fmt.Errorf("call still blocked"), elapsed: time.Since(t0), blocked: true}
	}
}

func c19CallInner(via string, path string, timeout time.Duration) c19Result {
	var r c19Result
	t0 := time.Now()
	_, r.panicMsg = Guard(func() {
		switch via {
		case "SafeCmdExecution":
			r.out, r.err = util.SafeCmdExecution(path, nil, timeout)
		case "CmdSensor":
			s, _ := sensors.NewSensor(configuration.SensorConfig{ID: "c19s", Cmd: &configuration.CmdSensorConfig{Exec: path}})
			var v float64
			v, r.err = s.GetValue()
			if r.err == nil {
				r.out = fmt.Sprint(v)
			}
		case "CmdFan.GetRpm", "CmdFan.GetPwm", "CmdFan.SetPwm":
			f, _ := fans.NewFan(configuration.FanConfig{ID: "c19f", Cmd: &configuration.CmdFanConfig{
				SetPwm: &configuration.ExecConfig{Exec: path}, GetPwm: &configuration.ExecConfig{Exec: path}, GetRpm: &configuration.ExecConfig{Exec: path}}})
			var v int
			switch via {
			case "CmdFan.GetRpm":
				v, r.err = f.GetRpm()
			case "CmdFan.GetPwm":
				v, r.err = f.GetPwm()
			default:
				r.err = f.SetPwm(10)
			}
			if r.err == nil {
				r.out = fmt.Sprint(v)
			}
		}
	})
	r.elapsed = time.Since(t0)
	return r
}

func c19Check(ctx *Ctx, dir string, c c19Case, n int, mu *sync.Mutex) {
	timeout := time.Duration(c.TimeoutS * float64(time.Second))
	path := c19Path(dir, &c, n) // written by c19Build before any command was started
	var stopVanish chan struct{}
	if c.Mode == "vanishing" {
		// remove and re-create the file as fast as possible while the call runs
		stopVanish = make(chan struct{})
		go func() {
			for {
				select {
				case <-stopVanish:
					return
				default:
				}
				_ = os.Remove(path)
				_ = os.WriteFile(path, []byte("#!/bin/sh\necho 7\n"), 0755)
			}
		}()
	}
	var busy *os.File
	if c.Mode == "text-file-busy" {
		// hold a write descriptor on the script for the duration of the call
		busy, _ = os.OpenFile(path, os.O_WRONLY, 0)
	}
	var r c19Result
	grey := 0
	for attempt := 0; attempt < 3; attempt++ {
		if c.Mode == "vanishing" {
			// many quick attempts to hit the window between check and start
			for k := 0; k < 300; k++ {
				r = c19Call(c.Via, path, timeout)
				if r.panicMsg != "" {
					break
				}
			}
		} else {
			r = c19Call(c.Via, path, timeout)
		}
		over := r.elapsed - timeout
		if over > 1000*time.Millisecond && over < 2500*time.Millisecond {
			grey++
			continue
		}
		break
	}
	if stopVanish != nil {
		close(stopVanish)
	}
	if busy != nil {
		_ = busy.Close()
	}
	mu.Lock()
	defer mu.Unlock()
	ctx.Eval(1)
	cls := fmt.Sprintf("%s:via=%s", c.Mode, c.Via)
	replay := map[string]interface{}{"mode": c.Mode, "timeout_s": c.TimeoutS, "via": c.Via, "script": c.script}
	over := r.elapsed - timeout
	ctx.Max("max_elapsed_over_timeout_ms", int64(over/time.Millisecond))
	if r.panicMsg != "" {
		ctx.Violation("panic:"+cls, fmt.Sprintf("timeout %.1fs: %s", c.TimeoutS, r.panicMsg), replay)
		return
	}
	if over >= 2500*time.Millisecond {
		ctx.Violation("blocked-past-timeout:"+cls, fmt.Sprintf("timeout %.1fs but the call took %.2fs", c.TimeoutS, r.elapsed.Seconds()), replay)
	} else if over > 1000*time.Millisecond {
		ctx.Inconclusive(fmt.Sprintf("%s timeout %.1fs: elapsed %.2fs stayed in the grey zone on %d attempts", cls, c.TimeoutS, r.elapsed.Seconds(), grey))
	}
	if r.err != nil && r.out != "" {
		ctx.Violation("error-with-output:"+cls, fmt.Sprintf("out=%q err=%v", trunc(r.out), r.err), replay)
	}
	if r.err == nil {
		switch {
		case c.mustErr:
			ctx.Violation("failure-not-reported:"+cls, fmt.Sprintf("timeout %.1fs: out=%q err=nil elapsed %.2fs", c.TimeoutS, trunc(r.out), r.elapsed.Seconds()), replay)
		case c.Via != "SafeCmdExecution" || c.Mode == "vanishing":
			// wrappers convert the output; a racing writer may truncate the script
		case c.anyOut:
		case c.wantOut == "<huge>":
			if len(r.out) != 50000000 || strings.Trim(r.out, "x") != "" {
				ctx.Violation("wrong-output:"+cls, fmt.Sprintf("huge output: got %d bytes", len(r.out)), replay)
			}
		case r.out != c.wantOut:
			ctx.Violation("wrong-output:"+cls, fmt.Sprintf("timeout %.1fs: out=%q err=nil want %q", c.TimeoutS, trunc(r.out), c.wantOut), replay)
		}
	} else if !c.mustErr && !c.mayErr {
		ctx.Violation("healthy-command-failed:"+cls, fmt.Sprintf("timeout %.1fs: err=%v", c.TimeoutS, r.err), replay)
	}
	ctx.Nontrivial(fmt.Sprintf("%s|%.1f", cls, c.TimeoutS))
}

func trunc(s string) string {
	if len(s) > 60 {
		return s[:60] + "..."
	}
	return s
}

func init() {
	register("C19", func(ctx *Ctx) {
		dir := ctx.Path("c19")
		_ = os.MkdirAll(dir, 0755)
		var cases []c19Case
		timeouts := []float64{0.2, 1}
		if ctx.Thorough() {
			timeouts = []float64{0.2, 0.5, 1, 2}
		}
		for _, t := range timeouts {
			for _, c := range c19Cases(t) {
				c.TimeoutS = t
				c.Via = "SafeCmdExecution"
				cases = append(cases, c)
			}
		}
		// wrappers (fixed 2 s timeout inside fan2go)
		for _, via := range []string{"CmdSensor", "CmdFan.GetRpm", "CmdFan.GetPwm", "CmdFan.SetPwm"} {
			for _, c := range c19Cases(2) {
				switch c.Mode {
				case "not-executable", "missing-interpreter", "exit1-with-output", "grandchild-holds-stdout", "sleep-beyond-deadline-child", "non-numeric-output", "empty-output", "ok", "ok-with-stderr", "text-file-busy",
					"blank-output-space", "blank-output-tab", "blank-output-crlf", "blank-output-lines", "value-with-unit",
					"missing", "symlink-loop", "parent-is-a-file", "name-too-long", "is-a-directory", "dangling-symlink",
					"many-stdout-lines", "exit3-with-many-stderr-lines", "no-shebang-sleeps-beyond-deadline", "grandchild-holds-stdout-only",
					"exit3-with-one-long-stderr-line", "exit3-with-long-first-stderr-line", "exit3-with-stderr-starting-with-a-line-break":
				default:
					if !ctx.Thorough() {
						continue
					}
				}
				c.TimeoutS = 2
				c.Via = via
				// through the wrappers garbage output must surface as an error, except for SetPwm which ignores the output
				if via != "CmdFan.SetPwm" && (c.Mode == "non-numeric-output" || c.Mode == "empty-output" || c.Mode == "ok-multiline" || c.Mode == "huge-output" || c.Mode == "many-stdout-lines" || c.Mode == "one-long-stdout-line" || strings.HasPrefix(c.Mode, "blank-output")) {
					c.mustErr = true
				}
				cases = append(cases, c)
			}
		}
		reps := 1
		if ctx.Thorough() {
			reps = 3
		}
		var mu sync.Mutex
		var wg sync.WaitGroup
		sem := make(chan struct{}, 4) // parallelism <= 4 keeps the wall-clock oracle honest
		// All scripts are written before the first command is started: a child forked while another goroutine still has
		// an executable open for writing inherits that descriptor until its own exec, and the kernel then refuses to
		// execute the other file ("text file busy") - an artefact of writing executables in the process that runs them.
		{
			k := 0
			for rep := 0; rep < reps; rep++ {
				for i := range cases {
					if (i+rep)%ctx.Of != ctx.Batch {
						continue
					}
					k++
					cc := cases[i]
					c19Build(dir, &cc, k+rep*10000)
				}
			}
		}
		n := 0
		for rep := 0; rep < reps; rep++ {
			for i, c := range cases {
				if (i+rep)%ctx.Of != ctx.Batch {
					continue
				}
				n++
				if n <= 3 {
					mu.Lock()
					ctx.Sample(map[string]interface{}{"mode": c.Mode, "timeout_s": c.TimeoutS, "via": c.Via, "script": c.script})
					mu.Unlock()
				}
				wg.Add(1)
				sem <- struct{}{}
				go func(c c19Case, n int) {
					defer wg.Done()
					defer func() { <-sem }()
					c19Check(ctx, dir, c, n+rep*10000, &mu)
				}(c, n)
			}
		}
		wg.Wait()
		if ctx.Batch == 0 && !ctx.Abort {
			c19Storm(ctx, dir)
		}
		if ctx.Batch == 1%ctx.Of && !ctx.Abort {
			c19SameHangingCommand(ctx, dir)
		}
		if ctx.Batch == 2%ctx.Of && !ctx.Abort {
			c19SensorMonitor(ctx, dir)
		}
		if ctx.Batch == 3%ctx.Of && !ctx.Abort {
			c19AfterReportedError(ctx, dir)
		}
		if ctx.Batch == 4%ctx.Of && !ctx.Abort {
			c19ExecutableBeingReplaced(ctx, dir)
		}
		if ctx.Batch == 5%ctx.Of && !ctx.Abort {
			c19LongRunOfFailures(ctx, dir)
		}
	})
}

// c19Storm: many commands at once, each through a path that was never used before (the daemon at start-up: every
// cmd sensor and cmd fan of the configuration runs its command for the first time, from its own goroutine). Every call
// must come back with the command's output resp. the refusal; a runtime abort of the process ends the batch and is
// attributed to this case by the case log.
func c19Storm(ctx *Ctx, dir string) {
	ctx.LogCase(map[string]interface{}{"class": "process-died-under-concurrent-commands", "case": "12 goroutines x 150 never-used paths"})
	sdir := filepath.Join(dir, "storm")
	_ = os.MkdirAll(sdir, 0755)
	good, bad := filepath.Join(sdir, "good.sh"), filepath.Join(sdir, "bad.sh")
	_ = os.WriteFile(good, []byte("#!/bin/sh\necho 42\n"), 0755)
	_ = os.WriteFile(bad, []byte("#!/bin/sh\necho 43\n"), 0757)
	_ = os.Chmod(bad, 0757)
	const G, K = 12, 150
	paths := make([][]string, G)
	for g := 0; g < G; g++ {
		for k := 0; k < K; k++ {
			p := filepath.Join(sdir, fmt.Sprintf("l-%d-%d", g, k))
			target := good
			if k%3 == 2 {
				target = bad
			}
			_ = os.Symlink(target, p)
			paths[g] = append(paths[g], p)
		}
	}
	var mu sync.Mutex
	var wg sync.WaitGroup
	for g := 0; g < G; g++ {
		wg.Add(1)
		go func(g int) {
			defer wg.Done()
			for k, p := range paths[g] {
				via := []string{"SafeCmdExecution", "CmdSensor", "CmdFan.GetPwm"}[(g+k)%3]
				r := c19Call(via, p, 5*time.Second)
				mu.Lock()
				ctx.Eval(1)
				replay := map[string]interface{}{"mode": "concurrent-never-used-paths", "via": via}
				wantErr := k%3 == 2
				switch {
				case r.panicMsg != "":
					ctx.Violation("panic:concurrent-never-used-paths:via="+via, r.panicMsg, replay)
				case r.blocked:
					ctx.Violation("blocked-past-timeout:concurrent-never-used-paths:via="+via, fmt.Sprintf("%s: no result %.1fs after the call", p, r.elapsed.Seconds()), replay)
				case wantErr && r.err == nil:
					ctx.Violation("failure-not-reported:concurrent-never-used-paths:via="+via, fmt.Sprintf("a world-writable script was run: out=%q", trunc(r.out)), replay)
				case !wantErr && (r.err != nil || !strings.HasPrefix(r.out, "42")):
					ctx.Violation("healthy-command-failed:concurrent-never-used-paths:via="+via, fmt.Sprintf("out=%q err=%v", trunc(r.out), r.err), replay)
				}
				mu.Unlock()
			}
		}(g)
	}
	wg.Wait()
	ctx.Nontrivial("concurrent-never-used-paths|12x150")
	ctx.Count("concurrent_first_use_calls", G*K)
}

// c19SameHangingCommand: one executable that stops answering, called by several users at once (cmd fans sharing a
// script, a cmd sensor read by its monitor and a curve). Every one of the calls is bounded by its own timeout.
func c19SameHangingCommand(ctx *Ctx, dir string) {
	sdir := filepath.Join(dir, "samehang")
	_ = os.MkdirAll(sdir, 0755)
	script := filepath.Join(sdir, "hang.sh")
	_ = os.WriteFile(script, []byte("#!/bin/sh\nexec sleep 30\n"), 0755)
	for _, via := range []string{"SafeCmdExecution", "CmdFan.GetPwm"} {
		timeout := 1 * time.Second
		if via != "SafeCmdExecution" {
			timeout = 2 * time.Second // fixed inside fan2go
		}
		const callers = 5
		res := make([]c19Result, callers)
		var wg sync.WaitGroup
		for i := 0; i < callers; i++ {
			wg.Add(1)
			go func(i int) {
				defer wg.Done()
				res[i] = c19Call(via, script, timeout)
			}(i)
		}
		wg.Wait()
		worst := time.Duration(0)
		for _, r := range res {
			ctx.Eval(1)
			if r.elapsed > worst {
				worst = r.elapsed
			}
			if r.panicMsg != "" {
				ctx.Violation("panic:same-hanging-command:via="+via, r.panicMsg, nil)
				return
			}
			if r.err == nil {
				ctx.Violation("failure-not-reported:same-hanging-command:via="+via, fmt.Sprintf("out=%q", trunc(r.out)), nil)
				return
			}
		}
		over := worst - timeout
		ctx.Max("max_elapsed_over_timeout_ms", int64(over/time.Millisecond))
		if over >= 2500*time.Millisecond {
			var all []string
			for _, r := range res {
				all = append(all, fmt.Sprintf("%.1fs", r.elapsed.Seconds()))
			}
			ctx.Violation("blocked-past-timeout:same-hanging-command:via="+via, fmt.Sprintf("%d concurrent calls of one hanging executable with timeout %.0fs returned after %v", callers, timeout.Seconds(), all), nil)
			return
		} else if over > 1000*time.Millisecond {
			ctx.Inconclusive(fmt.Sprintf("same-hanging-command via %s: slowest call took %.2fs (grey zone)", via, worst.Seconds()))
		}
		ctx.Nontrivial("same-hanging-command|" + via)
	}
}

// c19SensorMonitor: the caller side - the daemon's sensor monitor polling a command sensor whose command is fast, slow
// but healthy (slower than the polling rate), failing, hanging beyond the deadline, or leaving a grandchild on stdout.
// The monitor must neither panic nor stop polling; a healthy command's readings must keep arriving.
func c19SensorMonitor(ctx *Ctx, dir string) {
	sdir := filepath.Join(dir, "monitor")
	_ = os.MkdirAll(sdir, 0755)
	configuration.CurrentConfig.TempRollingWindowSize = 2
	modes := []struct {
		name, script string
		healthy      bool
		runFor       time.Duration
	}{
		{"fast", "echo 42000", true, 600 * time.Millisecond},
		{"slow-but-healthy", "sleep 0.25; echo 42000", true, 1500 * time.Millisecond},
		{"failing", "exit 3", false, 600 * time.Millisecond},
		{"sleeping-beyond-deadline", "exec sleep 6", false, 2800 * time.Millisecond},
		{"grandchild-holds-stdout", "(sleep 6 &) ; echo 42000; exit 0", false, 1800 * time.Millisecond}, // output or an error, either is fine
		// garbage of the numeric kind: not a reading, and the monitor goes on
		{"prints-nan", "echo NaN", false, 600 * time.Millisecond},
		{"prints-minus-infinity", "echo -Infinity", false, 600 * time.Millisecond},
		{"nan-once-then-healthy", "if [ -e " + sdir + "/nan-seen ]; then echo 42000; else touch " + sdir + "/nan-seen; echo nan; fi", true, 1500 * time.Millisecond},
	}
	var paths []string
	for i, m := range modes {
		p := filepath.Join(sdir, fmt.Sprintf("sensor-%d.sh", i))
		_ = os.WriteFile(p, []byte("#!/bin/sh\n"+m.script+"\n"), 0755)
		paths = append(paths, p)
	}
	for i, m := range modes {
		ctx.LogCase(map[string]interface{}{"class": "sensor-monitor:process-died:" + m.name})
		sn, err := sensors.NewSensor(configuration.SensorConfig{ID: uniqueId("c19mon"), Cmd: &configuration.CmdSensorConfig{Exec: paths[i]}})
		if err != nil {
			ctx.Inconclusive("sensor monitor: " + err.Error())
			return
		}
		sn.SetMovingAvg(20000)
		cctx, cancel := context.WithCancel(context.Background())
		done := make(chan string, 1)
		go func() {
			msg := ""
			defer func() {
				if p := recover(); p != nil {
					msg = fmt.Sprintf("panic: %v", p)
				}
				done <- msg
			}()
			_ = internal.NewSensorMonitor(sn, 100*time.Millisecond).Run(cctx)
		}()
		stopped := ""
		select {
		case msg := <-done:
			stopped = "the monitor ended on its own: " + msg
		case <-time.After(m.runFor):
		}
		// (reading the smoothed value is what every control cycle of a fan on this sensor does)
		avgRead := make(chan struct{})
		var avg float64
		go func() { avg = sn.GetMovingAvg(); close(avgRead) }()
		if returned, blk := awaitOrDeadlock(avgRead); !returned {
			if blk != "" {
				ctx.Violation("sensor-monitor:smoothed-value-cannot-be-read-any-more:"+m.name, fmt.Sprintf("polling rate 100 ms, command %q: GetMovingAvg() has been waiting for the sensor's lock for minutes:\n%s", m.script, blk), nil)
			} else {
				ctx.Inconclusive("sensor monitor: GetMovingAvg() did not return within minutes")
			}
			cancel()
			ctx.Abort = true
			return
		}
		cancel()
		if stopped == "" {
			select {
			case <-done:
			// the monitor's loop chooses at random between "context cancelled" and "next tick" when both are ready, and with a
			// command that takes 2.5 s per poll a tick is always ready: every extra poll has probability 1/2. 90 s is 36 polls.
			case <-time.After(90 * time.Second):
				stopped = "the monitor did not stop 90 s after its context was cancelled"
			}
		}
		ctx.Eval(1)
		switch {
		case stopped != "":
			ctx.Violation("sensor-monitor:"+m.name, fmt.Sprintf("polling rate 100 ms, command %q: %s", m.script, stopped), nil)
		case m.healthy && !(avg > 20000):
			ctx.Violation("sensor-monitor:healthy-readings-do-not-arrive:"+m.name, fmt.Sprintf("polling rate 100 ms, command %q: smoothed value still %.0f after %.1f s", m.script, avg, m.runFor.Seconds()), nil)
		default:
			ctx.Nontrivial("sensor-monitor|" + m.name)
		}
	}
}

// c19AfterReportedError: fan2go has reported a problem the way the daemon does (ui.ErrorAndNotify / WarningAndNotify:
// "cannot start the metrics endpoint", "fan control error") in each of the desktop-session situations; commands that
// fail afterwards must still come back with their error.
func c19AfterReportedError(ctx *Ctx, dir string) {
	sdir := filepath.Join(dir, "afterreport")
	_ = os.MkdirAll(sdir, 0755)
	fail := filepath.Join(sdir, "fail.sh")
	_ = os.WriteFile(fail, []byte("#!/bin/sh\necho oops >&2\nexit 3\n"), 0755)
	oldPath, oldDisplay, hadDisplay := os.Getenv("PATH"), os.Getenv("DISPLAY"), false
	_, hadDisplay = os.LookupEnv("DISPLAY")
	defer func() {
		_ = os.Setenv("PATH", oldPath)
		if hadDisplay {
			_ = os.Setenv("DISPLAY", oldDisplay)
		} else {
			_ = os.Unsetenv("DISPLAY")
		}
	}()
	for b := 0; b < 7; b++ {
		sub := *ctx
		sub.Batch = b
		_ = os.Setenv("PATH", oldPath)
		variant := setupDesktop(&sub)
		ctx.LogCase(map[string]interface{}{"class": "after-reported-error:process-died:" + variant})
		for _, how := range []string{"ErrorAndNotify", "WarningAndNotify"} {
			reported := make(chan struct{})
			go func() {
				if how == "ErrorAndNotify" {
					ui.ErrorAndNotify("Statistics Error", "Cannot start prometheus metrics endpoint (%s)", "listen tcp :9000: bind: address already in use")
				} else {
					ui.WarningAndNotify("Fan Controller: f1", "Something went wrong: %v", "fan stalled at max pwm")
				}
				close(reported)
			}()
			select {
			case <-reported:
			case <-time.After(15 * time.Second):
				ctx.Violation("after-reported-error:reporting-blocks:"+how+":"+variant, "ui."+how+" had not returned after 15 s", nil)
				return
			}
			for _, via := range []string{"SafeCmdExecution", "CmdSensor"} {
				r := c19Call(via, fail, 2*time.Second)
				ctx.Eval(1)
				switch {
				case r.blocked:
					ctx.Violation("blocked-past-timeout:failing-command-after-a-reported-error:via="+via, fmt.Sprintf("desktop session %s, after ui.%s: a command exiting 3 had not returned %.0f s after the call", variant, how, r.elapsed.Seconds()), nil)
					return
				case r.panicMsg != "":
					ctx.Violation("panic:failing-command-after-a-reported-error:via="+via, r.panicMsg, nil)
					return
				case r.err == nil:
					ctx.Violation("failure-not-reported:failing-command-after-a-reported-error:via="+via, fmt.Sprintf("out=%q", trunc(r.out)), nil)
					return
				}
			}
			ctx.Nontrivial("after-reported-error|" + how + "|" + variant)
		}
	}
}

// c19ExecutableBeingReplaced: the configured executable is being replaced while fan2go calls it (package upgrade,
// a script regenerated by another service): by rename it alternates between the working script, a symlink that points
// to itself, a dangling symlink, a directory and a symlink to the working script. Every call returns - with the
// output of a run or an error - and none panics, at whatever point between fan2go's own file-system calls the swap lands.
func c19ExecutableBeingReplaced(ctx *Ctx, dir string) {
	sdir := filepath.Join(dir, "replaced")
	_ = os.MkdirAll(sdir, 0755)
	good := filepath.Join(sdir, "good.sh")
	_ = os.WriteFile(good, []byte("#!/bin/sh\necho 42\n"), 0755)
	for _, via := range []string{"SafeCmdExecution", "CmdSensor", "CmdFan.GetPwm"} {
		ctx.LogCase(map[string]interface{}{"class": "executable-being-replaced:process-died:" + via})
		p := filepath.Join(sdir, "tool-"+strings.ReplaceAll(via, ".", "-")+".sh")
		_ = os.WriteFile(p, []byte("#!/bin/sh\necho 42\n"), 0755)
		var stop atomic.Bool
		var swaps atomic.Int64
		var wg sync.WaitGroup
		wg.Add(1)
		go func() {
			defer wg.Done()
			tmp := p + ".new"
			for i := 0; !stop.Load(); i++ {
				_ = os.RemoveAll(tmp)
				// (every kind of entry directly follows the working script at some point of the cycle)
				switch []string{"script", "loop", "script", "dangling", "script", "dir", "link", "loop"}[i%8] {
				case "loop":
					_ = os.Symlink(filepath.Base(p), tmp) // points to itself once renamed
				case "script":
					_ = os.WriteFile(tmp, []byte("#!/bin/sh\necho 42\n"), 0755)
				case "dangling":
					_ = os.Symlink(filepath.Join(sdir, "nowhere"), tmp)
				case "link":
					_ = os.Symlink(good, tmp)
				case "dir":
					_ = os.Mkdir(tmp, 0755)
				}
				if fi, err := os.Lstat(p); err == nil && fi.IsDir() {
					_ = os.Remove(p)
				}
				_ = os.Rename(tmp, p)
				swaps.Add(1)
			}
		}()
		const calls = 1500
		outputs, errs := 0, 0
		for i := 0; i < calls; i++ {
			r := c19Call(via, p, 2*time.Second)
			ctx.Eval(1)
			if r.panicMsg != "" {
				stop.Store(true)
				wg.Wait()
				ctx.Violation("panic:executable-being-replaced:via="+via, fmt.Sprintf("call %d of %d while the executable is being swapped by rename (script / self-symlink / dangling symlink / symlink / directory): %s", i, calls, r.panicMsg), nil)
				return
			}
			if r.blocked {
				stop.Store(true)
				wg.Wait()
				ctx.Violation("blocked-past-timeout:executable-being-replaced:via="+via, fmt.Sprintf("call %d had not returned after %.0f s", i, r.elapsed.Seconds()), nil)
				return
			}
			if r.err != nil {
				errs++
			} else {
				outputs++
				if r.out != "42" {
					stop.Store(true)
					wg.Wait()
					ctx.Violation("wrong-output:executable-being-replaced:via="+via, fmt.Sprintf("call %d returned %q without error; every variant that can run prints 42", i, trunc(r.out)), nil)
					return
				}
			}
		}
		stop.Store(true)
		wg.Wait()
		ctx.Count("calls_while_the_executable_is_being_replaced", calls)
		ctx.Count("swaps_of_the_executable_during_those_calls", swaps.Load())
		if outputs > 0 && errs > 0 {
			ctx.Nontrivial("executable-being-replaced|" + via)
		}
	}
}

// c19LongRunOfFailures: a command that keeps failing for a long time (a vendor tool while its device is suspended):
// thousands of polls of the same sensor / fan object in a row. Every one of them comes back with an error, none panics,
// and the first poll after the command works again delivers its reading or an error - it still returns.
func c19LongRunOfFailures(ctx *Ctx, dir string) {
	sdir := filepath.Join(dir, "longrun")
	_ = os.MkdirAll(sdir, 0755)
	script := filepath.Join(sdir, "tool.sh")
	_ = os.WriteFile(script, []byte("#!/bin/sh\nif [ -e "+sdir+"/healthy ]; then echo 42000; else echo 'device suspended' >&2; exit 3; fi\n"), 0755)
	const polls = 4500
	sn, err := sensors.NewSensor(configuration.SensorConfig{ID: uniqueId("c19long"), Cmd: &configuration.CmdSensorConfig{Exec: script}})
	if err != nil {
		ctx.Inconclusive("long run of failures: " + err.Error())
		return
	}
	fan, _ := fans.NewFan(configuration.FanConfig{ID: uniqueId("c19longfan"), Cmd: &configuration.CmdFanConfig{
		SetPwm: &configuration.ExecConfig{Exec: script}, GetPwm: &configuration.ExecConfig{Exec: script}, GetRpm: &configuration.ExecConfig{Exec: script}}})
	sn.SetMovingAvg(30000)
	for _, who := range []string{"sensor-monitor-poll", "fan-rpm-query"} {
		ctx.LogCase(map[string]interface{}{"class": "long-run-of-failures:process-died:" + who})
		_ = os.Remove(filepath.Join(sdir, "healthy"))
		n := polls
		if who == "fan-rpm-query" {
			n = polls / 3
		}
		for i := 0; i <= n; i++ {
			if i == n {
				_ = os.WriteFile(filepath.Join(sdir, "healthy"), []byte("1"), 0644)
			}
			var perr error
			done := make(chan struct{})
			var pmsg string
			go func() {
				defer close(done)
				_, pmsg = Guard(func() {
					if who == "sensor-monitor-poll" {
						perr = internal.VerifUpdateSensor(sn)
					} else {
						_, perr = fan.GetRpm()
					}
				})
			}()
			select {
			case <-done:
			case <-time.After(12 * time.Second):
				ctx.Violation("blocked-past-timeout:long-run-of-failures:"+who, fmt.Sprintf("poll %d of a command that exits 3 at once had not returned after 12 s", i), nil)
				ctx.Abort = true
				return
			}
			ctx.Eval(1)
			if pmsg != "" {
				ctx.Violation("panic:long-run-of-failures:"+who, fmt.Sprintf("poll %d of %d consecutive polls of a failing command (exit 3): %s", i, n, pmsg), nil)
				return
			}
			if i < n && perr == nil && who == "fan-rpm-query" {
				ctx.Violation("failure-not-reported:long-run-of-failures:"+who, fmt.Sprintf("poll %d", i), nil)
				return
			}
		}
		ctx.Count("consecutive_polls_of_a_failing_command", int64(n))
		ctx.Nontrivial("long-run-of-failures|" + who)
	}
}
