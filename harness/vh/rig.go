package main

import (
	"context"
	"fmt"
	"os"
	"path/filepath"
	"strconv"
	"strings"
	"sync"
	"sync/atomic"
	"time"

	"github.com/markusressel/fan2go/internal"
	"github.com/markusressel/fan2go/internal/configuration"
	"github.com/markusressel/fan2go/internal/control_loop"
	"github.com/markusressel/fan2go/internal/controller"
	"github.com/markusressel/fan2go/internal/curves"
	"github.com/markusressel/fan2go/internal/fans"
	"github.com/markusressel/fan2go/internal/persistence"
	"github.com/markusressel/fan2go/internal/sensors"
	"github.com/markusressel/fan2go/internal/util"
)

// A Rig runs the real controller.Run (RPM monitor + control loop actors) and the
// real sensor monitors in-process against devices in the virtual driver (hwmon /
// file) or scripts (cmd). Time is real but the fixed waits of the controller are
// divided by controller.VerifTimescale; tick rates are a few milliseconds.

type RigSpec struct {
	FanKind    string `json:"fanKind"`    // hwmon | file | cmd
	SensorKind string `json:"sensorKind"` // hwmon | file | cmd
	CurveKind  string `json:"curveKind"`  // linear | pid | function-linear-pid | function-function
	HasEnable  bool   `json:"hasEnable"`
	HasRpm     bool   `json:"hasRpm"`
	NeverStop  bool   `json:"neverStop"`
	OrigMode   int    `json:"origMode"`
	OrigPwm    int    `json:"origPwm"`
	Stored     bool   `json:"stored"` // fan characterisation already stored (no initial analysis)
	Levels     int    `json:"levels"` // quantiser levels of the device (keeps the analysis short); 0 = identity
	Window     int    `json:"window"`
	Theta      int    `json:"theta"` // plant threshold
	Algo       string `json:"algo"`  // direct | pid
	TempMdeg   int    `json:"tempMdeg,omitempty"` // sensor reading (default 45000; the linear curve spans 30..70 degrees)
	// configured limits of a hwmon fan (nil pointers = not configured); when all are nil a never-stop hwmon fan gets 20..60
	// OneTool (cmd fans): setPwm, getPwm and getRpm are one executable called with sub-commands
	OneTool bool `json:"oneTool,omitempty"`
	CfgMin  *int `json:"cfgMin,omitempty"`
	CfgStart *int `json:"cfgStart,omitempty"`
	CfgMax   *int `json:"cfgMax,omitempty"`
}

type Rig struct {
	Spec     RigSpec
	Dir      string
	PwmPath  string
	EnPath   string
	RpmPath  string
	SensPath string
	Fan      fans.Fan
	Sensor   sensors.Sensor
	Curve    curves.SpeedCurve
	Ctrl     controller.FanController
	Pers     persistence.Persistence
	Events   int64
	Evals    int64
	mu       sync.Mutex
	log      []util.VerifEvent
	onEvent  func(n int64, ev *util.VerifEvent)

	lastPwmWrite util.VerifEvent
	havePwmWrite bool
}

// lastPwmWriteRefused: was fan2go's last PWM write a 255 that the driver refused or ignored?
func (r *Rig) lastPwmWriteRefused() bool {
	r.mu.Lock()
	defer r.mu.Unlock()
	return r.havePwmWrite && r.lastPwmWrite.Val == 255 && (r.lastPwmWrite.Err != "" || r.lastPwmWrite.Action == "ignore")
}

func (r *Rig) state(name string) string { return filepath.Join(r.Dir, name) }

// newRig builds the devices. hwmon and file devices live in the virtual driver's
// memory (real placeholder files exist for os.Stat); cmd devices are scripts with
// state files.
func newRig(ctx *Ctx, spec RigSpec) *Rig {
	d := installDriver()
	d.Rules = nil
	d.Hook = nil
	dir := ctx.Path(uniqueId("rig"))
	_ = os.MkdirAll(dir, 0755)
	r := &Rig{Spec: spec, Dir: dir}
	r.PwmPath, r.EnPath, r.RpmPath, r.SensPath = filepath.Join(dir, "pwm1"), filepath.Join(dir, "pwm1_enable"), filepath.Join(dir, "fan1_input"), filepath.Join(dir, "temp1_input")
	configuration.CurrentConfig.RpmPollingRate = 3 * time.Millisecond
	configuration.CurrentConfig.TempSensorPollingRate = 3 * time.Millisecond
	configuration.CurrentConfig.ControllerAdjustmentTickRate = 4 * time.Millisecond
	configuration.CurrentConfig.RpmRollingWindowSize = spec.Window
	configuration.CurrentConfig.TempRollingWindowSize = 3
	configuration.CurrentConfig.MaxRpmDiffForSettledFan = 20
	configuration.CurrentConfig.FanResponseDelay = 0
	configuration.CurrentConfig.RunFanInitializationInParallel = true

	// ---- sensor
	sid := uniqueId("rigsensor")
	temp := "45000"
	if spec.TempMdeg != 0 {
		temp = strconv.Itoa(spec.TempMdeg)
	}
	switch spec.SensorKind {
	case "hwmon":
		d.Mem[r.SensPath] = temp
		r.Sensor, _ = sensors.NewSensor(configuration.SensorConfig{ID: sid, HwMon: &configuration.HwMonSensorConfig{Platform: "rig", Index: 1, TempInput: r.SensPath}})
	case "file":
		d.Mem[r.SensPath] = temp
		r.Sensor, _ = sensors.NewSensor(configuration.SensorConfig{ID: sid, File: &configuration.FileSensorConfig{Path: r.SensPath}})
	default:
		_ = os.WriteFile(r.state("sensor.out"), []byte("45000\n"), 0644)
		_ = os.WriteFile(r.state("sensor.code"), []byte("0\n"), 0644)
		cmdScript(r.state("sensor.sh"), "read code < "+r.state("sensor.code")+"; cat "+r.state("sensor.out")+"; exit $code")
		r.Sensor, _ = sensors.NewSensor(configuration.SensorConfig{ID: sid, Cmd: &configuration.CmdSensorConfig{Exec: r.state("sensor.sh")}})
	}
	tv, _ := strconv.Atoi(temp)
	r.Sensor.SetMovingAvg(float64(tv))
	sensors.RegisterSensor(r.Sensor)

	// ---- curve
	mk := func(cfg configuration.CurveConfig) curves.SpeedCurve { return mkCurve(cfg) }
	lin := func() curves.SpeedCurve {
		return mk(configuration.CurveConfig{ID: uniqueId("riglin"), Linear: &configuration.LinearCurveConfig{Sensor: sid, Min: 30, Max: 70}})
	}
	pid := func() curves.SpeedCurve {
		return mk(configuration.CurveConfig{ID: uniqueId("rigpid"), PID: &configuration.PidCurveConfig{Sensor: sid, SetPoint: 50, P: -0.05, I: -0.005, D: -0.005}})
	}
	fn := func(typ string, members ...curves.SpeedCurve) curves.SpeedCurve {
		var ids []string
		for _, m := range members {
			ids = append(ids, m.GetId())
		}
		return mk(configuration.CurveConfig{ID: uniqueId("rigfn"), Function: &configuration.FunctionCurveConfig{Type: typ, Curves: ids}})
	}
	switch {
	case spec.CurveKind == "pid":
		r.Curve = pid()
	case spec.CurveKind == "function-linear-pid":
		r.Curve = fn("maximum", lin(), pid())
	case spec.CurveKind == "function-function":
		r.Curve = fn("average", fn("sum", lin()), fn("maximum", pid(), lin()))
	case strings.HasPrefix(spec.CurveKind, "fn:"):
		// fn:<type>:<members>  with members in {pid+pid, lin+pid, nested-pid}
		parts := strings.SplitN(spec.CurveKind, ":", 3)
		switch parts[2] {
		case "pid+pid":
			r.Curve = fn(parts[1], pid(), pid())
		case "nested-pid":
			r.Curve = fn(parts[1], fn(parts[1], pid()), fn("maximum", pid()))
		default:
			r.Curve = fn(parts[1], lin(), pid())
		}
	default:
		r.Curve = lin()
	}

	proxy := &countingCurve{id: uniqueId("rigcount"), inner: r.Curve, evals: &r.Evals}
	curves.RegisterSpeedCurve(proxy)

	// ---- fan
	fid := uniqueId("rigfan")
	cfg := configuration.FanConfig{ID: fid, Curve: proxy.id, NeverStop: spec.NeverStop}
	switch spec.FanKind {
	case "hwmon", "file":
		_ = os.WriteFile(r.PwmPath, []byte("0"), 0644)
		d.Mem[r.PwmPath] = strconv.Itoa(spec.OrigPwm)
		if spec.FanKind == "hwmon" && spec.HasEnable {
			_ = os.WriteFile(r.EnPath, []byte("0"), 0644)
			d.Mem[r.EnPath] = strconv.Itoa(spec.OrigMode)
		}
		if spec.HasRpm {
			_ = os.WriteFile(r.RpmPath, []byte("0"), 0644)
			d.Plants[r.RpmPath] = &util.VerifPlant{RpmPath: r.RpmPath, PwmPath: r.PwmPath, Kind: "threshold", Theta: spec.Theta, MaxRpm: 2000}
		}
		if spec.FanKind == "hwmon" {
			cfg.HwMon = &configuration.HwMonFanConfig{Platform: "rig", Index: 1, RpmChannel: 1, PwmChannel: 1, SysfsPath: dir,
				RpmInputPath: r.RpmPath, PwmPath: r.PwmPath, PwmEnablePath: r.EnPath}
			if spec.CfgMin != nil || spec.CfgStart != nil || spec.CfgMax != nil {
				cfg.MinPwm, cfg.StartPwm, cfg.MaxPwm = spec.CfgMin, spec.CfgStart, spec.CfgMax
			} else if spec.NeverStop {
				cfg.MinPwm, cfg.MaxPwm = iptr(20), iptr(60)
			}
		} else {
			cfg.File = &configuration.FileFanConfig{Path: r.PwmPath}
			if spec.HasRpm {
				cfg.File.RpmPath = r.RpmPath
			}
		}
	default:
		_ = os.WriteFile(r.state("pwm"), []byte(strconv.Itoa(spec.OrigPwm)+"\n"), 0644)
		for _, n := range []string{"set", "get", "rpm"} {
			_ = os.WriteFile(r.state(n+".code"), []byte("0\n"), 0644)
			_ = os.WriteFile(r.state(n+".garbage"), []byte("0\n"), 0644)
		}
		cmdScript(r.state("set.sh"), "read code < "+r.state("set.code")+"; if [ $code = 0 ]; then echo \"$1\" > "+r.state("pwm")+"; fi; echo \"$1\" >> "+r.state("writes")+"; exit $code")
		cmdScript(r.state("get.sh"), "read code < "+r.state("get.code")+"; read g < "+r.state("get.garbage")+"; if [ $g = 1 ]; then echo pwm=abc; else cat "+r.state("pwm")+"; fi; exit $code")
		// while the file rpm.hang exists the tachometer query does not answer within fan2go's deadline
		cmdScript(r.state("rpm.sh"), "if [ -e "+r.state("rpm.hang")+" ]; then sleep 3; fi; read code < "+r.state("rpm.code")+"; read g < "+r.state("rpm.garbage")+"; if [ $g = 1 ]; then echo n/a; else p=$(cat "+r.state("pwm")+"); if [ \"$p\" -lt "+strconv.Itoa(spec.Theta)+" ]; then echo 0; else echo 1500; fi; fi; exit $code")
		cfg.Cmd = &configuration.CmdFanConfig{
			SetPwm: &configuration.ExecConfig{Exec: r.state("set.sh"), Args: []string{"%pwm%"}},
			GetPwm: &configuration.ExecConfig{Exec: r.state("get.sh")},
		}
		if spec.HasRpm {
			cfg.Cmd.GetRpm = &configuration.ExecConfig{Exec: r.state("rpm.sh")}
		}
		if spec.OneTool {
			cmdScript(r.state("tool.sh"), "sub=$1; shift; case \"$sub\" in set) exec "+r.state("set.sh")+" \"$@\";; get) exec "+r.state("get.sh")+";; rpm) exec "+r.state("rpm.sh")+";; esac; exit 64")
			cfg.Cmd.SetPwm = &configuration.ExecConfig{Exec: r.state("tool.sh"), Args: []string{"set", "%pwm%"}}
			cfg.Cmd.GetPwm = &configuration.ExecConfig{Exec: r.state("tool.sh"), Args: []string{"get"}}
			if spec.HasRpm {
				cfg.Cmd.GetRpm = &configuration.ExecConfig{Exec: r.state("tool.sh"), Args: []string{"rpm"}}
			}
		}
	}
	fan, err := fans.NewFan(cfg)
	if err != nil {
		panic(err)
	}
	r.Fan = fan
	fans.RegisterFan(fan)
	if spec.Levels >= 2 && (spec.FanKind == "hwmon" || spec.FanKind == "file") {
		d.Rules = append(d.Rules, &util.VerifRule{Path: r.PwmPath, Op: "w", Action: "quant", Val: spec.Levels})
	}
	mp := newMemPersistence()
	if spec.Stored {
		data := map[int]float64{}
		for p := 0; p <= 255; p += 5 {
			data[p] = float64(p * 8)
		}
		mp.pwmData[fid] = data
		m := identityMap()
		if spec.Levels >= 2 {
			m = quantMap(quantLevels(spec.Levels))
		}
		mp.pwmMaps[fid] = m
	}
	r.Pers = mp
	var loop control_loop.ControlLoop = control_loop.NewDirectControlLoop(nil)
	if spec.Algo == "pid" {
		loop = control_loop.NewPidControlLoop(0.3, 0.02, 0.005)
	}
	r.Ctrl = controller.NewFanController(r.Pers, fan, loop, configuration.CurrentConfig.ControllerAdjustmentTickRate)
	d.Hook = func(ev *util.VerifEvent) {
		n := atomic.AddInt64(&r.Events, 1)
		r.mu.Lock()
		if len(r.log) < 20000 {
			r.log = append(r.log, *ev)
		}
		if ev.Op == "w" && ev.Path == r.PwmPath {
			// kept apart from the (capped) log: the final-state oracle needs the very last PWM write
			r.lastPwmWrite, r.havePwmWrite = *ev, true
		}
		cb := r.onEvent
		r.mu.Unlock()
		if cb != nil {
			cb(n, ev)
		}
	}
	return r
}

func (r *Rig) close() {
	d := driver
	d.Mu.Lock()
	d.Hook = nil
	d.Rules = nil
	for _, p := range []string{r.PwmPath, r.EnPath, r.SensPath} {
		delete(d.Mem, p)
	}
	delete(d.Plants, r.RpmPath)
	d.Mu.Unlock()
	_ = os.RemoveAll(r.Dir)
}

// device state, read from outside fan2go
func (r *Rig) devPwm() int {
	if r.Spec.FanKind == "cmd" {
		b, _ := os.ReadFile(r.state("pwm"))
		n, err := strconv.Atoi(strings.TrimSpace(string(b)))
		if err != nil {
			return -1
		}
		return n
	}
	driver.Mu.Lock()
	defer driver.Mu.Unlock()
	n, err := strconv.Atoi(strings.TrimSpace(driver.Mem[r.PwmPath]))
	if err != nil {
		return -1
	}
	return n
}

func (r *Rig) devMode() int {
	driver.Mu.Lock()
	defer driver.Mu.Unlock()
	n, err := strconv.Atoi(strings.TrimSpace(driver.Mem[r.EnPath]))
	if err != nil {
		return -1
	}
	return n
}

func (r *Rig) hasMode() bool { return r.Spec.FanKind == "hwmon" && r.Spec.HasEnable }

// addRule installs a driver rule (thread-safe with respect to the running daemon code).
func (r *Rig) addRules(rules ...*util.VerifRule) {
	driver.Mu.Lock()
	// fault rules go in front of the permanent quantiser rule
	driver.Rules = append(rules, driver.Rules...)
	driver.Mu.Unlock()
}

func (r *Rig) clearFaultRules() {
	driver.Mu.Lock()
	var keep []*util.VerifRule
	for _, ru := range driver.Rules {
		if ru.Action == "quant" {
			keep = append(keep, ru)
		}
	}
	driver.Rules = keep
	driver.Mu.Unlock()
}

func (r *Rig) pwmWrites() []util.VerifEvent {
	r.mu.Lock()
	defer r.mu.Unlock()
	var out []util.VerifEvent
	for _, e := range r.log {
		if e.Op == "w" && e.Path == r.PwmPath {
			out = append(out, e)
		}
	}
	return out
}

// cmdWrites returns the PWM values the set script was asked to apply.
func (r *Rig) cmdWrites() []int {
	var out []int
	for _, l := range readLines(r.state("writes")) {
		n, err := strconv.Atoi(strings.TrimSpace(l))
		if err != nil {
			n = -1
		}
		out = append(out, n)
	}
	return out
}

// countingCurve lets the harness see control cycles: the controller evaluates its curve exactly once per cycle.
type countingCurve struct {
	id    string
	inner curves.SpeedCurve
	evals *int64
}

func (c *countingCurve) GetId() string { return c.id }
func (c *countingCurve) Evaluate() (int, error) {
	atomic.AddInt64(c.evals, 1)
	return c.inner.Evaluate()
}
func (c *countingCurve) CurrentValue() int { return c.inner.CurrentValue() }

type runResult struct {
	Returned bool
	Err      error
	Panic    string
}

// start launches controller.Run and one sensor monitor; returns cancel and a channel with the result of Run.
func (r *Rig) start() (context.CancelFunc, chan runResult, *sync.WaitGroup) {
	cctx, cancel := context.WithCancel(context.Background())
	done, wg := r.launch(cctx)
	return cancel, done, wg
}

// launch starts the actors on a context the caller already owns (so that callbacks installed before the start can cancel it).
func (r *Rig) launch(cctx context.Context) (chan runResult, *sync.WaitGroup) {
	done := make(chan runResult, 1)
	var wg sync.WaitGroup
	wg.Add(1)
	go func() {
		defer wg.Done()
		mon := internal.NewSensorMonitor(r.Sensor, configuration.CurrentConfig.TempSensorPollingRate)
		_ = mon.Run(cctx)
	}()
	go func() {
		var res runResult
		// NOTE: a panic inside the actors started by Run happens on other goroutines and
		// kills the process; the parent attributes it to the logged case.
		defer func() {
			if p := recover(); p != nil {
				res.Panic = fmt.Sprint(p)
			}
			res.Returned = true
			done <- res
		}()
		res.Err = r.Ctrl.Run(cctx)
	}()
	return done, &wg
}

// restoredOK is the C03 final-state predicate.
func (r *Rig) restoredOK(lastPwmWriteRefused bool) (bool, string) {
	pwm := r.devPwm()
	if r.hasMode() {
		mode := r.devMode()
		if mode == r.Spec.OrigMode && r.Spec.OrigMode != 1 {
			return true, fmt.Sprintf("mode %d (original), pwm %d", mode, pwm)
		}
		if pwm == 255 {
			return true, fmt.Sprintf("mode %d, pwm 255", mode)
		}
		if lastPwmWriteRefused {
			return true, fmt.Sprintf("mode %d, pwm %d, but the driver refused the final write of 255", mode, pwm)
		}
		return false, fmt.Sprintf("mode %d (original %d), pwm %d", mode, r.Spec.OrigMode, pwm)
	}
	if pwm == 255 || lastPwmWriteRefused {
		return true, fmt.Sprintf("pwm %d", pwm)
	}
	return false, fmt.Sprintf("no control mode, pwm %d", pwm)
}
