package main

import (
	"fmt"
	"math/rand"
	"os"
	"strings"
	"sync/atomic"
	"time"

	"github.com/markusressel/fan2go/internal/controller"
	"github.com/markusressel/fan2go/internal/util"
)

// C09 (in-process layer) — a failing sensor or fan read/write never crashes the daemon.
//
// Fault enumeration on a running closed loop (real controller.Run + real sensor monitor):
// component in {sensor read, rpm read, pwm read, pwm write, mode write} x kind in {errno, empty,
// garbage} (cmd backends: exit 1, garbage) x window (from the k-th operation on that path, for d
// operations or for good) x fan backend x sensor backend x curve type; singles and pairs.
// Oracle: the process does not die (a panic in an actor goroutine is process-fatal - the parent
// attributes it to the logged case) and, after the fault window, either control cycles continue
// (the curve keeps being evaluated) or regulation of that fan has stopped and the C03 final-state
// predicate holds for it.

type c09Fault struct {
	Comp string `json:"comp"` // sensor | rpm | pwm-read | pwm-write | mode-write
	Kind string `json:"kind"` // eio | eacces | empty | garbage | exit1
	From int    `json:"from"` // k-th operation on that path (1-based)
	Len  int    `json:"len"`  // number of operations hit; 0 = for good
}

type c09Case struct {
	Spec   RigSpec    `json:"spec"`
	Faults []c09Fault `json:"faults"`
}

func (c *c09Case) class() string {
	s := fmt.Sprintf("fan=%s:sensor=%s:curve=%s", c.Spec.FanKind, c.Spec.SensorKind, c.Spec.CurveKind)
	for _, f := range c.Faults {
		perm := "window"
		if f.Len == 0 {
			perm = "permanent"
		}
		at := "later"
		if f.From <= 1 {
			at = "first-op"
		}
		s += fmt.Sprintf(":%s/%s/%s/%s", f.Comp, f.Kind, at, perm)
	}
	return s
}

func (r *Rig) c09Rule(f c09Fault) *util.VerifRule {
	ru := &util.VerifRule{From: f.From}
	if f.Len > 0 {
		ru.To = f.From + f.Len - 1
	}
	switch f.Comp {
	case "sensor":
		ru.Path, ru.Op = r.SensPath, "r"
	case "rpm":
		ru.Path, ru.Op = r.RpmPath, "r"
	case "pwm-read":
		ru.Path, ru.Op = r.PwmPath, "r"
	case "pwm-write":
		ru.Path, ru.Op = r.PwmPath, "w"
	case "mode-write":
		ru.Path, ru.Op = r.EnPath, "w"
	}
	switch f.Kind {
	case "eio":
		ru.Action, ru.Errno = "fail", "EIO"
	case "eacces":
		ru.Action, ru.Errno = "fail", "EACCES"
	case "empty":
		ru.Action, ru.Raw = "content", ""
	case "garbage":
		ru.Action, ru.Raw = "content", "1a2\n"
	case "blank":
		ru.Action, ru.Raw = "content", " \n"
	case "newline":
		ru.Action, ru.Raw = "content", "\n"
	}
	if ru.Op == "w" && ru.Action == "content" {
		ru.Action, ru.Errno = "fail", "EINVAL"
	}
	return ru
}

// cmd backends: faults are switched through the scripts' state files for a time window
func (r *Rig) c09CmdFault(f c09Fault, on bool) {
	val := "0\n"
	if on {
		val = "1\n"
	}
	target := map[string]string{"sensor": "sensor", "rpm": "rpm", "pwm-read": "get", "pwm-write": "set"}[f.Comp]
	if target == "" {
		return
	}
	if strings.HasPrefix(f.Kind, "script-") {
		script, bak := r.state(target+".sh"), r.state(target+".sh.bak")
		if on {
			if _, err := os.Stat(bak); err == nil {
				return
			}
			_ = os.Rename(script, bak)
			switch f.Kind {
			case "script-eloop":
				_ = os.Symlink(script, script)
			case "script-not-executable":
				b, _ := os.ReadFile(bak)
				_ = os.WriteFile(script, b, 0644)
			}
		} else if _, err := os.Stat(bak); err == nil {
			_ = os.Remove(script)
			_ = os.Rename(bak, script)
		}
		return
	}
	if f.Kind == "garbage" && target != "set" {
		if target == "sensor" {
			if on {
				_ = os.WriteFile(r.state("sensor.out"), []byte("t=4x\n"), 0644)
			} else {
				_ = os.WriteFile(r.state("sensor.out"), []byte("45000\n"), 0644)
			}
			return
		}
		_ = os.WriteFile(r.state(target+".garbage"), []byte(val), 0644)
		return
	}
	_ = os.WriteFile(r.state(target+".code"), []byte(val), 0644)
}

func (f c09Fault) isCmd(spec RigSpec) bool {
	if f.Comp == "sensor" {
		return spec.SensorKind == "cmd"
	}
	return spec.FanKind == "cmd"
}

func runC09(ctx *Ctx, c *c09Case) {
	controller.VerifTimescale = 50
	ctx.LogCase(map[string]interface{}{"class": c.class(), "case": c})
	rig := newRig(ctx, c.Spec)
	defer rig.close()
	var rules []*util.VerifRule
	var cmdFaults []c09Fault
	for _, f := range c.Faults {
		if f.isCmd(c.Spec) {
			cmdFaults = append(cmdFaults, f)
			if f.From <= 1 {
				rig.c09CmdFault(f, true)
			}
		} else {
			rules = append(rules, rig.c09Rule(f))
		}
	}
	rig.addRules(rules...)
	cancel, done, wg := rig.start()
	// wait until regulation has begun (the start-up wait and, without stored data, the initial analysis come
	// first) or Run has given up; logical condition with a generous limit
	returned := false
	var res runResult
	began := time.Now()
	firstCycleFailed := false
	for atomic.LoadInt64(&rig.Evals) == 0 && !returned && time.Since(began) < 30*time.Second {
		select {
		case res = <-done:
			returned = true
		case <-time.After(5 * time.Millisecond):
		}
		// a fault that already hits the very first cycle (e.g. the initial PWM read) ends regulation before the curve is
		// evaluated once: then the fan must have been handed back, and the RPM monitor keeps Run() alive
		if time.Since(began) > 500*time.Millisecond && atomic.LoadInt64(&rig.Evals) == 0 {
			active := atomic.LoadInt64(&rig.Events) > 0 || (c.Spec.FanKind == "cmd" && len(rig.cmdWrites()) > 0)
			if ok, _ := rig.restoredOK(false); ok && active && time.Since(began) > 2*time.Second {
				firstCycleFailed = true
				break
			}
		}
	}
	if !returned && atomic.LoadInt64(&rig.Evals) == 0 && !firstCycleFailed {
		cancel()
		ctx.Inconclusive("regulation did not begin within 30 s for " + jsonStr(c))
		ctx.Abort = true
		return
	}
	// let it run; cmd faults that start later are switched on after a while
	time.Sleep(60 * time.Millisecond)
	for _, f := range cmdFaults {
		if f.From > 1 {
			rig.c09CmdFault(f, true)
		}
	}
	if c.Spec.FanKind == "cmd" || c.Spec.SensorKind == "cmd" {
		time.Sleep(250 * time.Millisecond)
	} else {
		time.Sleep(80 * time.Millisecond)
	}
	permanent := false
	for _, f := range cmdFaults {
		if f.Len > 0 {
			rig.c09CmdFault(f, false)
		} else {
			permanent = true
		}
	}
	for _, f := range c.Faults {
		if f.Len == 0 {
			permanent = true
		}
	}
	// observation after the fault window
	e0 := atomic.LoadInt64(&rig.Evals)
	obs := 120 * time.Millisecond
	if c.Spec.FanKind == "cmd" || c.Spec.SensorKind == "cmd" {
		obs = 400 * time.Millisecond
	}
	if !returned {
		select {
		case res = <-done:
			returned = true
		case <-time.After(obs):
		}
	}
	e1 := atomic.LoadInt64(&rig.Evals)
	// "no control cycle during the window" must not be an artefact of a loaded machine: before concluding that
	// regulation has stopped, give it 5 s (more than a thousand tick periods) to show one more evaluation
	for waited := 0; e1 == e0 && !returned && waited < 100; waited++ {
		select {
		case res = <-done:
			returned = true
		case <-time.After(50 * time.Millisecond):
		}
		e1 = atomic.LoadInt64(&rig.Evals)
	}
	ctx.Eval(1)
	continues := e1 > e0 && !returned
	hit := 0
	driver.Mu.Lock()
	for _, ru := range rules {
		if ru.Count >= ru.From {
			hit++
		}
	}
	driver.Mu.Unlock()
	if res.Panic != "" {
		ctx.Violation("panic-in-run:"+c.class(), res.Panic, c)
	}
	if !continues {
		// regulation of this fan has stopped: it must have been handed back
		refused := rig.lastPwmWriteRefused()
		if c.Spec.FanKind == "cmd" {
			// a cmd fan whose set command keeps failing cannot be restored
			for _, f := range c.Faults {
				if f.Comp == "pwm-write" && f.Len == 0 {
					refused = true
				}
			}
		}
		ok, desc := rig.restoredOK(refused)
		if !ok {
			ctx.Violation("regulation-stopped-without-restoring-the-fan:"+c.class(), fmt.Sprintf("%s; curve evaluations %d -> %d during the observation window, Run returned=%v err=%v; case %s", desc, e0, e1, returned, res.Err, jsonStr(c)), c)
		}
		ctx.Count("regulation_stopped_and_fan_restored", 1)
	} else {
		ctx.Count("regulation_continued", 1)
	}
	cancel()
	if !returned {
		fin := make(chan struct{})
		go func() { res = <-done; close(fin) }()
		if returned, blocked := awaitOrDeadlock(fin); !returned {
			// a watchdog by itself decides nothing; a fan2go goroutine that has been waiting for a lock for a minute does:
			// the controller cannot be stopped any more, so the fan is never handed back
			if blocked != "" {
				ctx.Violation("controller-cannot-be-stopped-after-fault:"+c.class(), fmt.Sprintf("Run() had not returned 70 s after cancel; a fan2go goroutine waits for a lock:\n%s\ncase %s", blocked, jsonStr(c)), c)
			} else {
				ctx.Inconclusive("controller.Run did not return after cancel for " + jsonStr(c))
			}
			ctx.Abort = true
			return
		}
	}
	wg.Wait()
	if hit == len(rules) && (len(rules) > 0 || len(cmdFaults) > 0) {
		ctx.Nontrivial(c.class() + fmt.Sprintf("|%v", c.Faults))
		ctx.AddSet("classes", c.class())
	} else {
		ctx.Count("fault_point_not_reached", 1)
	}
	_ = permanent
}

var c09Curves = func() []string {
	out := []string{"linear", "pid", "function-linear-pid", "function-function"}
	// every function type over members that can all fail at once (PID members read their sensor synchronously)
	for _, t := range []string{"sum", "difference", "delta", "minimum", "maximum", "average"} {
		out = append(out, "fn:"+t+":pid+pid", "fn:"+t+":nested-pid", "fn:"+t+":lin+pid")
	}
	return out
}()

func c09Singles(spec RigSpec) []c09Fault {
	var out []c09Fault
	comps := []string{"sensor", "rpm", "pwm-read", "pwm-write"}
	if spec.FanKind == "hwmon" && spec.HasEnable {
		comps = append(comps, "mode-write")
	}
	for _, comp := range comps {
		kinds := []string{"eio", "empty", "garbage", "blank", "newline"}
		isCmd := (comp == "sensor" && spec.SensorKind == "cmd") || (comp != "sensor" && spec.FanKind == "cmd")
		if isCmd {
			// the command fails, prints garbage, or cannot be started any more (its path became a symlink loop, vanished,
			// lost its execute bit)
			kinds = []string{"exit1", "garbage", "script-eloop", "script-missing", "script-not-executable"}
			if comp == "pwm-write" {
				kinds = []string{"exit1", "script-eloop", "script-missing"}
			}
		} else if comp == "pwm-write" || comp == "mode-write" {
			kinds = []string{"eio", "eacces"}
		}
		for _, k := range kinds {
			for _, from := range []int{1, 2, 12} {
				for _, l := range []int{1, 6, 0} {
					out = append(out, c09Fault{Comp: comp, Kind: k, From: from, Len: l})
				}
			}
		}
	}
	return out
}

func init() {
	register("C09", func(ctx *Ctx) {
		ctx.AddSet("desktop_session", setupDesktop(ctx))
		r := ctx.Rng
		// the combination matrix, spread over the batches
		var cases []*c09Case
		for _, fk := range []string{"hwmon", "file", "cmd"} {
			for _, sk := range []string{"hwmon", "file", "cmd"} {
				for _, ck := range c09Curves {
					spec := RigSpec{FanKind: fk, SensorKind: sk, CurveKind: ck, HasEnable: true, HasRpm: true, NeverStop: false, OrigMode: 2, OrigPwm: 90, Stored: true, Levels: 0, Window: 5, Theta: 0, Algo: "direct"}
					singles := c09Singles(spec)
					for _, f := range singles {
						cases = append(cases, &c09Case{Spec: spec, Faults: []c09Fault{f}})
					}
				}
			}
		}
		rand.New(rand.NewSource(ctx.Seed)).Shuffle(len(cases), func(i, j int) { cases[i], cases[j] = cases[j], cases[i] })
		limit := 900
		if ctx.Thorough() {
			limit = len(cases)
		}
		n := 0
		for i, c := range cases {
			if i >= limit {
				break
			}
			if i%ctx.Of != ctx.Batch {
				continue
			}
			// cmd backends are slow (process spawns): thin them out in the quick tier
			if !ctx.Thorough() && (c.Spec.FanKind == "cmd" || c.Spec.SensorKind == "cmd") && r.Intn(3) > 0 {
				continue
			}
			if ctx.Abort {
				break
			}
			n++
			ctx.SampleKind("single-"+c.Spec.FanKind, map[string]interface{}{"kind": "single-" + c.Spec.FanKind, "case": c})
			runC09(ctx, c)
		}
		// pairs of faults
		np := ctx.N(60, 6000)
		for i := 0; i < np && !ctx.Abort; i++ {
			spec := RigSpec{FanKind: pick(r, "hwmon", "hwmon", "file"), SensorKind: pick(r, "hwmon", "file"), CurveKind: pick(r, c09Curves...), HasEnable: true, HasRpm: true,
				NeverStop: r.Intn(3) == 0, OrigMode: pick(r, 0, 2, 2, 5), OrigPwm: pick(r, 0, 90, 255), Stored: true, Levels: 5, Window: 5, Theta: 0, Algo: pick(r, "direct", "pid")}
			singles := c09Singles(spec)
			c := &c09Case{Spec: spec, Faults: []c09Fault{singles[r.Intn(len(singles))], singles[r.Intn(len(singles))]}}
			ctx.SampleKind("pair", map[string]interface{}{"kind": "pair", "case": c})
			runC09(ctx, c)
		}
	})
}
