#!/bin/bash
cd /verif
export GOFLAGS=-mod=mod GOPROXY=off GOSUMDB=off GOTOOLCHAIN=local
v() { id=$1; demo=$2; target=$3; shift 3; echo "=== $id"; selftest/validate_seed.sh /tmp/mut/$id/mutation.patch /tmp/mut/$id/demo/$demo $target "$@" 2>&1 | tail -4; }
stub() { id=$1; target=$2; run=$3; pkg=$4; extra=$5; echo "=== $id (stub)"; wt=/tmp/sv$id; git -C /repo worktree add --detach -q $wt HEAD; cd $wt; cp /tmp/mut/$id/demo/zz_demo_test.go $target; go test -modfile=/tmp/mut/$id-demo.mod -vet=off -count=1 $6 -run "$run" $pkg >/tmp/sv$id.a 2>&1; a=$?; git apply /tmp/mut/$id/mutation.patch; go test -modfile=/tmp/mut/$id-demo.mod -vet=off -count=1 $6 -run "$run" $pkg >/tmp/sv$id.b 2>&1; b=$?; tail -3 /tmp/sv$id.b; rm -f $target; c=1; for t in 1 2 3; do VERIF_REPO=$wt /verif/baseline.sh >/tmp/sv$id.base 2>&1 && { c=0; break; }; done; cd /; git -C /repo worktree remove --force $wt; echo "RESULT demo_without=$a demo_with=$b suite=$c"; [ $a = 0 ] && [ $b != 0 ] && [ $c = 0 ] && echo CONFIRMED || echo NOT-CONFIRMED; cd /verif; }
v C03 zz_demo_test.go internal/controller/zz_demo_test.go -run 'TestZZDemo' ./internal/controller/
v C05 zz_demo_test.go internal/controller/zz_demo_test.go -run 'TestDemo_' ./internal/controller/
v C09 zz_demo_pidpause_test.go internal/controller/zz_demo_pidpause_test.go -run 'TestDemoPid' ./internal/controller/
v C12 zz_demo_test.go internal/controller/zz_demo_test.go -run 'TestDemo_' ./internal/controller/
v C14 zz_demo_test.go internal/persistence/zz_demo_test.go -run 'TestDemo' ./internal/persistence/
v C16 zz_demo_test.go internal/controller/zz_demo_test.go -run 'TestZZDemo_C16' ./internal/controller/
v C19 zz_demo_test.go internal/util/zz_demo_test.go -run 'TestDemo_' ./internal/util/
v C20 zz_demo_test.go internal/statistics/zz_demo_test.go -race -run 'TestDemo' ./internal/statistics/
stub C15 zz_demo_test.go 'TestDemo' . "" ""
stub C17 internal/zz_demo_test.go 'TestC17' ./internal/ "" ""
