#!/bin/bash
# usage: validate_seed.sh <patch> <demo-file> <demo-target-relpath> <go test args...>
# Confirms in a fresh scratch worktree of /repo HEAD: demo passes without the patch, fails with it,
# and the repository's own tests (compilable packages) still pass with the patch.
export GOFLAGS=-mod=mod GOPROXY=off
patch=$1; demo=$2; target=$3; shift 3
wt=$(mktemp -d /tmp/seedval.XXXXXX)
git -C /repo worktree add --detach -q "$wt" HEAD || exit 2
cd "$wt" || exit 2
cp "$demo" "$target"
echo "--- demo WITHOUT patch (expect ok)"; go test -vet=off -count=1 "$@" 2>&1 | tail -3; a=${PIPESTATUS[0]}
git apply "$patch" || { echo "PATCH DOES NOT APPLY"; cd /; git -C /repo worktree remove --force "$wt"; exit 2; }
echo "--- demo WITH patch (expect FAIL)"; go test -vet=off -count=1 "$@" 2>&1 | tail -6; b=${PIPESTATUS[0]}
rm -f "$target"
echo "--- suite WITH patch (expect baseline ok)"; c=1; for try in 1 2 3; do VERIF_REPO="$wt" /verif/baseline.sh && { c=0; break; }; done  # TestPidCurve* are wall-clock sensitive also on the unchanged tree
cd /; git -C /repo worktree remove --force "$wt"
echo "RESULT demo_without=$a demo_with=$b suite=$c"
[ "$a" = 0 ] && [ "$b" != 0 ] && [ "$c" = 0 ] && echo CONFIRMED || echo NOT-CONFIRMED
