# variant of store_seed.py for demos that bring a gosensors-stub directory (copied as demo/gosensors-stub)
import json,os,shutil,sys
name, prop, src, target, runargs, needs, summary, note = sys.argv[1:9]
d=os.path.join('/verif/seeded',name); os.makedirs(os.path.join(d,'demo'),exist_ok=True)
shutil.copy(os.path.join(src,'mutation.patch'),os.path.join(d,'patch.diff'))
for f in os.listdir(os.path.join(src,'demo')):
    p=os.path.join(src,'demo',f)
    if os.path.isdir(p):
        shutil.copytree(p, os.path.join(d,'demo','gosensors-stub'), dirs_exist_ok=True)
    else:
        shutil.copy(p, os.path.join(d,'demo',f))
meta={"property":prop,"summary":summary,"needs_to_manifest":needs,"demo_placement":target,
 "demo_command":"GOFLAGS=-mod=mod GOPROXY=off go test -modfile=<copy of go.mod with `replace github.com/md14454/gosensors => <abs path of demo/gosensors-stub>`> -vet=off -count=1 "+runargs,
 "confirmed_by":"selftest/validate_seed.sh in a fresh scratch worktree of /repo HEAD: demo ok without patch, demo FAIL with patch, baseline.sh 172/172 with patch",
 "author":"independent sub-agent given only the property text (plus the hint that package internal needs a gosensors stub to compile)"+note}
json.dump(meta,open(os.path.join(d,'meta.json'),'w'),indent=1); print("stored",d)
