#!/bin/bash
# validates MANIFEST.json and every evidence file against the schemas in /root/.vp
python3-vt - <<'PY'
import json, glob, jsonschema, sys
ok = True
try:
    jsonschema.validate(json.load(open('/verif/MANIFEST.json')), json.load(open('/root/.vp/MANIFEST.schema.json')))
    print("MANIFEST.json ok")
except Exception as e:
    ok = False; print("MANIFEST.json INVALID:", str(e)[:300])
sch = json.load(open('/root/.vp/EVIDENCE.schema.json'))
m = json.load(open('/verif/MANIFEST.json'))
for c in m['checks']:
    f = c['evidence_file']
    try:
        d = json.load(open(f)); jsonschema.validate(d, sch)
        assert d['level'] == c['level_claimed']['category'], "level differs from manifest"
        print("%s ok  tier=%s evals=%s distinct=%s" % (f, d['tier'], d['coverage']['evaluations'], d['coverage']['distinct_nontrivial']))
    except Exception as e:
        ok = False; print(f, "INVALID:", str(e)[:300])
sys.exit(0 if ok else 1)
PY
