#!/usr/bin/env python3
"""usage: tier_table.py <sweep-log-with-thorough-HELD-lines>  -> markdown rows for DESIGN.md 11.5
quick numbers come from the committed evidence files, thorough numbers from the given log."""
import json, re, sys
layers = {"C03": "in-process + daemon", "C09": "in-process + daemon", "C14": "in-process + worker processes", "C15": "in-process + daemon",
          "C17": "in-process + daemon", "C18": "in-process + CLI processes", "C20": "in-process + daemon"}
thor = {}
if len(sys.argv) > 1:
    for l in open(sys.argv[1]):
        m = re.match(r"HELD property=(C\d\d) tier=thorough seed=\d+ evaluations=(\d+) distinct_nontrivial=(\d+) known=\d+ wall=([\d.]+)s", l)
        if m:
            thor[m.group(1)] = (int(m.group(2)), int(m.group(3)), float(m.group(4)))
man = {c["property_id"]: c for c in json.load(open("/verif/MANIFEST.json"))["checks"]} if True else {}
print("| id | level | layers | quick: evaluations / distinct | quick wall | thorough: evaluations / distinct |")
print("|---|---|---|---|---|---|")
for i in range(1, 21):
    p = "C%02d" % i
    e = json.load(open("/verif/evidence/%s.json" % p))
    cov = e.get("coverage", {})
    ev, di = cov.get("evaluations", e.get("evaluations")), cov.get("distinct_nontrivial", e.get("distinct_nontrivial"))
    t = thor.get(p)
    ts = "%s / %s in %.0f s" % (format(t[0], ","), format(t[1], ","), t[2]) if t else "-"
    print("| %s | %s | %s | %s / %s | %.0f s | %s |" % (p, e.get("level", "?").replace("_", " "), layers.get(p, "in-process"), format(ev, ","), format(di, ","), e.get("wall_s", 0), ts))
