#!/bin/bash
# Applies every seeded change under /verif/seeded to /repo (one at a time, reverted afterwards), runs the quick
# check of its property and reports whether an unlisted VIOLATION was raised. Evidence/replays of these runs go
# to /tmp/verif-mutant-out. Usage: run_all_seeded.sh [name-prefix]
cd /verif || exit 2
ok=0; missed=0
for d in seeded/${1}*/; do
  name=$(basename "$d")
  prop=$(python3 -c "import json;print(json.load(open('$d/meta.json'))['property'])")
  out=$(selftest/try_patch.sh "/verif/$d/patch.diff" "$prop" 2>&1)
  if echo "$out" | grep -q "^VIOLATION property=$prop"; then
    echo "CAUGHT  $name by $prop: $(echo "$out" | grep -m1 signature | sed 's/^ *//')"; ok=$((ok+1))
  else
    echo "MISSED  $name by $prop: $(echo "$out" | tail -1)"; missed=$((missed+1))
  fi
done
echo "caught=$ok missed=$missed"
[ "$missed" = 0 ]
