#!/bin/bash
# Runs every seeded change under /verif/seeded (one scratch copy of /repo per change, see try_patch.sh; /repo itself
# is not touched) against the quick check of its property and reports whether an unlisted VIOLATION was raised.
# Evidence/replays of these runs go to /tmp/verif-mutant-out. Usage: [PAR=n] run_all_seeded.sh [name-prefix]
cd /verif || exit 2
one() {
  d=$1
  name=$(basename "$d")
  prop=$(python3 -c "import json;print(json.load(open('$d/meta.json'))['property'])")
  out=$(LINES_MAX=60 selftest/try_patch.sh "/verif/$d/patch.diff" "$prop" 2>&1)
  if echo "$out" | grep -q "^VIOLATION property=$prop"; then
    echo "CAUGHT  $name by $prop: $(echo "$out" | grep -m1 signature | sed 's/^ *//')"
  else
    echo "MISSED  $name by $prop: $(echo "$out" | tail -1)"
  fi
}
export -f one
res=$(ls -d seeded/${1}*/ | xargs -P "${PAR:-1}" -I{} bash -c 'one {}')
echo "$res" | sort -k2
ok=$(echo "$res" | grep -c "^CAUGHT"); missed=$(echo "$res" | grep -c "^MISSED")
echo "caught=$ok missed=$missed"
[ "$missed" = 0 ]
