#!/usr/bin/env python3
"""usage: store_seed.py <name> <property> <srcdir> <demo-target> <demo-run-args> <needs> <summary>"""
import json, os, shutil, sys
name, prop, src, target, runargs, needs, summary = sys.argv[1:8]
d = os.path.join('/verif/seeded', name)
os.makedirs(os.path.join(d, 'demo'), exist_ok=True)
shutil.copy(os.path.join(src, 'mutation.patch'), os.path.join(d, 'patch.diff'))
for f in os.listdir(os.path.join(src, 'demo')):
    shutil.copy(os.path.join(src, 'demo', f), os.path.join(d, 'demo', f))
meta = {
    "property": prop,
    "summary": summary,
    "needs_to_manifest": needs,
    "demo_placement": target,
    "demo_command": "GOFLAGS=-mod=mod GOPROXY=off go test -vet=off -count=1 " + runargs,
    "confirmed_by": "selftest/validate_seed.sh in a fresh scratch worktree of /repo HEAD: demo ok without patch, demo FAIL with patch, baseline.sh 172/172 with patch",
    "author": "independent sub-agent given only the property text",
}
json.dump(meta, open(os.path.join(d, 'meta.json'), 'w'), indent=1)
print("stored", d)
