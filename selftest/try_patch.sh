#!/bin/bash
# usage: try_patch.sh <patch> <ID> [<ID>...]   applies the patch to /repo, runs the quick checks, undoes it
patch=$1; shift
# runs against a modified tree must not overwrite the committed evidence / replays
export VERIF_EVIDENCE_DIR=/tmp/verif-mutant-out/evidence VERIF_REPLAY_DIR=/tmp/verif-mutant-out/replays
cd /repo || exit 2
if [ -n "$(git status --porcelain)" ]; then echo "/repo not clean"; exit 2; fi
git apply --3way "$patch" 2>/dev/null || git apply "$patch" || { echo "patch does not apply"; git checkout -- . ; exit 2; }
git reset -q
for id in "$@"; do
  (cd /verif && ./check "$id" --tier "${TIER:-quick}" 2>&1 | grep -E "^(VIOLATION|HELD|VIOLATED|INCONCLUSIVE|KNOWN|  signature)" | head -${LINES_MAX:-12})
done
git checkout -- . ; git clean -fdq
git status --porcelain | head
