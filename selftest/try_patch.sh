#!/bin/bash
# usage: try_patch.sh <patch> <ID> [<ID>...]
# Runs the quick checks against /repo with the patch applied. Default: the patch is applied to a scratch copy of
# /repo's current working tree (outside /repo and /verif) and the checks read that copy through VERIF_REPO, so that
# /repo itself - which background sweeps rebuild from - is never modified. INPLACE=1 does it the way a third party
# would: git -C /repo apply, run, git -C /repo checkout -- .
patch=$(readlink -f "$1"); shift
# runs against a modified tree must not overwrite the committed evidence / replays
export VERIF_EVIDENCE_DIR=/tmp/verif-mutant-out/evidence VERIF_REPLAY_DIR=/tmp/verif-mutant-out/replays
run_checks() {
  for id in "$@"; do
    (cd /verif && ./check "$id" --tier "${TIER:-quick}" 2>&1 | grep -E "^(VIOLATION|HELD|VIOLATED|INCONCLUSIVE|KNOWN|  signature)" | head -${LINES_MAX:-12})
  done
}
if [ -n "$INPLACE" ]; then
  cd /repo || exit 2
  if [ -n "$(git status --porcelain)" ]; then echo "/repo not clean"; exit 2; fi
  git apply --3way "$patch" 2>/dev/null || git apply "$patch" || { echo "patch does not apply"; git checkout -- . ; exit 2; }
  git reset -q
  run_checks "$@"
  git checkout -- . ; git clean -fdq
  git status --porcelain | head
  exit 0
fi
copy=$(mktemp -d /dev/shm/mutrepo.XXXXXX)
trap 'rm -rf "$copy"' EXIT
rsync -a --exclude .git /repo/ "$copy/" || exit 2
(cd "$copy" && git init -q . && git apply "$patch") || { echo "patch does not apply"; exit 2; }
rm -rf "$copy/.git"
VERIF_REPO="$copy" run_checks "$@"
