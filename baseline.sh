#!/bin/bash
# Runs the repository's pinned test suite with the verification guard OFF (no -tags verif,
# nothing added to /repo) and checks that every test of the stable baseline passes.
export GOFLAGS=-mod=mod GOPROXY=off
cd "${VERIF_REPO:-/repo}" || exit 2
out=$(mktemp)
go test -vet=off -count=1 -json -timeout 25m ./... > "$out" 2>/dev/null
python3 - "$out" <<'PY'
import json, sys
base = json.load(open("/root/.vp/BASELINE.json"))["stable_pass"]
res = {}
for line in open(sys.argv[1]):
    try:
        e = json.loads(line)
    except ValueError:
        continue
    if e.get("Test") and e.get("Action") in ("pass", "fail", "skip"):
        res[e["Package"] + "::" + e["Test"]] = e["Action"]
bad = [t for t in base if res.get(t) != "pass"]
print("baseline: %d/%d stable tests pass" % (len(base) - len(bad), len(base)))
for t in bad[:20]:
    print("  NOT PASSING:", t, res.get(t))
sys.exit(1 if bad else 0)
PY
rc=$?
rm -f "$out"
exit $rc
