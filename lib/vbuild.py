"""Build an instrumented scratch copy of the *current* repository tree.

Nothing is ever written to $VERIF_REPO: the tree is copied to a fresh directory
(under /dev/shm when available), hook files (all `//go:build verif`) are added,
three mechanical rewrites are applied to the copy, the pure-Go gosensors
stand-in is wired in with a `replace`, the harness package is copied to
internal/verif/vh and everything is built with `-tags verif`.
"""
import os
import re
import shutil
import subprocess
import sys
import tempfile

VERIF = os.path.dirname(os.path.dirname(os.path.abspath(__file__)))
HARNESS = os.path.join(VERIF, "harness")


class Inconclusive(Exception):
    pass


def go_env():
    env = dict(os.environ)
    env.update({
        "GOFLAGS": "-mod=mod",
        "GOPROXY": "off",
        "GOSUMDB": "off",
        "GOTOOLCHAIN": "local",
        "CGO_ENABLED": env.get("VERIF_CGO", "1"),
    })
    env.pop("DISPLAY", None)
    return env


def repo_path():
    return os.environ.get("VERIF_REPO", "/repo")


def mkworkdir(tag):
    base = "/dev/shm" if os.path.isdir("/dev/shm") and os.access("/dev/shm", os.W_OK) else tempfile.gettempdir()
    return tempfile.mkdtemp(prefix="verif-%s-" % tag, dir=base)


def _rewrite(path, pattern, repl, min_count, what):
    with open(path) as f:
        src = f.read()
    new, n = re.subn(pattern, repl, src)
    if n < min_count:
        raise Inconclusive("rewrite '%s' matched %d sites in %s (need >= %d)" % (what, n, path, min_count))
    with open(path, "w") as f:
        f.write(new)
    return n


def run(cmd, cwd, env, what, timeout=1500):
    p = subprocess.run(cmd, cwd=cwd, env=env, stdout=subprocess.PIPE, stderr=subprocess.STDOUT, text=True, timeout=timeout)
    if p.returncode != 0:
        raise Inconclusive("%s failed (exit %d):\n%s" % (what, p.returncode, p.stdout[-4000:]))
    return p.stdout


def prepare(work, timescale_rewrite=True):
    """Copy and instrument the repository into work/src. Returns the src dir."""
    repo = repo_path()
    src = os.path.join(work, "src")
    env = go_env()
    run(["rsync", "-a", "--exclude", ".git", repo.rstrip("/") + "/", src + "/"], None, env, "rsync")
    # stand-in for the cgo libsensors binding
    shutil.copytree(os.path.join(HARNESS, "standin", "gosensors"), os.path.join(work, "gosensors"))
    # hook files (add-only, build tag verif)
    hooks = os.path.join(HARNESS, "hooks")
    for root, _dirs, files in os.walk(hooks):
        rel = os.path.relpath(root, hooks)
        for fn in files:
            dst_dir = os.path.join(src, rel)
            if not os.path.isdir(dst_dir):
                raise Inconclusive("hook target package missing: %s" % rel)
            shutil.copy(os.path.join(root, fn), os.path.join(dst_dir, fn))
    # mechanical rewrites on the copy
    _rewrite(os.path.join(src, "internal/util/pid.go"), r"\btime\.Now\(\)", "VerifNow()", 1, "pid clock")
    fpath = os.path.join(src, "internal/util/file.go")
    for name in ("ReadIntFromFile", "WriteIntToFile", "WriteIntToFileAtomic"):
        _rewrite(fpath, r"\bfunc %s\(" % name, "func %sOrig(" % name, 1, "file accessor " + name)
    if timescale_rewrite:
        _rewrite(os.path.join(src, "internal/controller/controller.go"), r"\btime\.Sleep\(", "verifSleep(", 1, "controller sleeps")
    # harness packages
    vdst = os.path.join(src, "internal", "verif")
    if os.path.exists(vdst):
        raise Inconclusive("internal/verif already exists in the repository")
    os.makedirs(vdst)
    for name in os.listdir(HARNESS):
        if name in ("standin", "hooks"):
            continue
        shutil.copytree(os.path.join(HARNESS, name), os.path.join(vdst, name))
    run(["go", "mod", "edit", "-replace", "github.com/md14454/gosensors=../gosensors",
         "-require", "github.com/anishathalye/porcupine@v1.3.0"], src, env, "go mod edit")
    return src


def build(work, src, target, out, race=False, tags="verif", test=False):
    env = go_env()
    cmd = ["go", "build"]
    if test:
        cmd = ["go", "test", "-c", "-vet=off"]
    cmd += ["-trimpath", "-tags", tags]
    if race:
        cmd.append("-race")
    cmd += ["-o", out, target]
    run(cmd, src, env, "go build %s" % target)
    return out


if __name__ == "__main__":
    # manual use: python3 vbuild.py <workdir>  (keeps the directory)
    w = sys.argv[1] if len(sys.argv) > 1 else mkworkdir("manual")
    s = prepare(w)
    print(s)
