#!/usr/bin/env python3
"""Regenerates /verif/MANIFEST.json from the table below (kept next to the checks so
that the manifest never drifts from what ./check implements)."""
import json
import os
import sys

HERE = os.path.dirname(os.path.abspath(__file__))
VERIF = os.path.dirname(HERE)
sys.path.insert(0, HERE)

ALL = ["C%02d" % i for i in range(1, 21)]

L1_NOTE = ("Trusted base: the harness (Go, /verif/harness) and its reference models; the pure-Go gosensors stand-in; the virtual "
           "sysfs driver and virtual PID clock spliced into the scratch copy by mechanical rewrites; Go toolchain. Held = held on the "
           "executions produced, nothing more.")

CHECKS = {
    "C01": dict(level="exploration", ref="3 (C01)", technique="runtime monitor: per-cycle assertion on the fan-side write log of generated closed-loop histories",
                text="Online monitor over hundreds of thousands (quick) to tens of millions (thorough) of control cycles of the real controller with "
                     "real hwmon/file/cmd fans on a virtual sysfs driver: every request within the fan's limits, every written value the map output of a nearest "
                     "supported input and within 0..255, no panic. Reaches controller states that only arise after arbitrary histories (PID wind-up, dt=0, "
                     "out-of-range curve values, stall raises)."),
    "C02": dict(level="exploration", ref="3 (C02)", technique="runtime monitor: stateful per-cycle invariant (floor, monotone minimum, strict raise) over stall histories",
                text="Stateful online monitor over generated histories of never-stop fans with stall episodes: request >= initial minimum + exported offset, "
                     "GetMinPwm()/offset never decrease, request strictly higher at each raise."),
    "C12": dict(level="exploration", ref="3 (C12)", technique="runtime monitor: reference-model comparison, exhaustive over a bounded key universe",
                text="Every map over a bounded key universe (all key subsets x all run partitions) and every request -50..305 is pushed through the real setPwm; "
                     "the value received by the fan is compared with an O(n) reference (nearest supported input). Exhaustive for the universe, random beyond it."),
    "C18": dict(level="exploration", ref="6 (C18)", technique="runtime monitor: outside observation of execution (marker file) against a reference predicate, exhaustive grid",
                text="Exhaustive owner x group x 512 modes x {direct, symlink} grid through the real SafeCmdExecution and the cmd sensor/fan entry points; each file is a "
                     "script that leaves a marker, so 'was executed' is observed independently of fan2go's return value; ownership/mode flips between consecutive calls; "
                     "config-file rule grid. Process level: the real binary's CLI sub-commands and `config validate` with trusted / untrusted configuration files.",
                note="Runs as root. Trusted base: harness, /bin/sh, chown/chmod semantics of the scratch file system (tmpfs)."),
    "C19": dict(level="fault_enumeration", ref="6 (C19)", technique="runtime monitor: failure-mode enumeration with elapsed-time and result oracle (wall clock with grey zone)",
                text="Every listed failure mode x several timeouts is executed for real through SafeCmdExecution and the wrappers; oracle: no panic, (output, nil) or "
                     "('', error), error when cut off by the deadline, elapsed <= timeout + 1 s (violations land >= 3 s beyond).",
                note="Wall-clock oracle: grey zone (timeout+1.0, timeout+2.5) s is retried, then inconclusive. Trusted base: harness, /bin/sh, sleep."),
    "C06": dict(level="exploration", ref="4 (C06)", technique="runtime monitor: reference-model comparison (float64 / exact-integer / independent PID model) on generated curves and sensor states",
                text="The real curve objects are evaluated over scripted sensors on a virtual clock; every value is compared with an independently written reference "
                     "(interpolation with explicit tolerance, exact integer aggregates checked at every node of nested function trees, a re-implementation of the documented PID loop) "
                     "and against the 0..255 range, over boundary and extreme float64 inputs."),
    "C07": dict(level="exploration", ref="3 (C07)", technique="runtime monitor: pairwise monotonicity oracle over dense temperature sweeps and controller sweeps",
                text="Dense upward temperature sweeps (1 m-degree near boundaries) through real linear and monotone-preserving function curves, and curve-value sweeps through "
                     "the real controller with the direct algorithm; the oracle is 'output never decreases along the sweep', which covers every grid pair by transitivity."),
    "C13": dict(level="exploration", ref="3 (C13)", technique="runtime monitor: reference-model comparison on real HwMonFan objects, exhaustive over small curves plus random attach sequences",
                text="Limits reported by the real HwMonFan getters after AttachFanRpmCurveData are compared with a reference computed from the data, for every combination "
                     "of configured limits and for attach sequences with different data, nil and empty data."),
    "C14": dict(level="fault_enumeration", ref="5 (C14)", technique="runtime monitors: model-based history checking, strace-injected SIGKILL crash-point enumeration, porcupine linearizability checking of recorded histories",
                text="Model-based sequential histories with full re-read after every step; enumeration of every pwrite64/fdatasync/ftruncate crash point of generated save/delete scripts "
                     "(worker killed by strace injection, fresh process reads back); concurrent goroutine + process clients incl. killed ones checked with porcupine.",
                note="Trusted base: harness, strace (injection at syscall entry), porcupine v1.3.0, tmpfs semantics of /dev/shm; process kill only (no power loss)."),
    "C04": dict(level="exploration", ref="3 (C04)", technique="runtime monitor: bounded-progress trace checker over closed-loop runs in virtual time, reference = observed steady map of the direct algorithm",
                text="Fresh controllers are started from every sampled device PWM at constant curve values; the request trace is checked for settling within the declared cycle bound, "
                     "step bound, monotone approach and equality with the direct algorithm's steady value; default PID traces after adversarial multi-hour histories (virtual clock) must "
                     "stay within one step of it during cycles [1200, 1500]."),
    "C05": dict(level="exploration", ref="3 (C05)", technique="runtime monitor: per-cycle assertion on device state and statistics counter under injected external interference",
                text="An intruder rewrites the virtual device's mode/PWM between cycles and in the middle of cycles; after the next complete cycle the device must be in manual mode at "
                     "the mapped target, and the third-party counter must move by exactly the number of effective PWM changes."),
    "C08": dict(level="fault_enumeration", ref="4 (C08)", technique="runtime monitor: per-poll invariant (hull, geometric contraction, bit-identical average after faulty poll) with exhaustive fault placement in short sequences",
                text="The real monitor step on real sensor objects with every fault kind placed at every position of short sequences and randomly in long ones; the oracle is evaluated after every poll."),
    "C10": dict(level="exploration", ref="3 (C10)", technique="runtime monitor: bounded-progress checker in logical steps (RPM polls) on stall scenarios",
                text="Stall scenarios on real hwmon/file/cmd fans: each raise must come within B(n)=25n+25 polls while the plant reports 0 RPM, the error must come exactly at the maximum."),
    "C11": dict(level="exploration", ref="4 (C11)", technique="runtime monitor: generated configuration texts through the real loader/validator, reference acceptance predicate plus crash monitor on instantiation (child process per batch)",
                text="Accepted configurations are checked against a reference structural predicate and then instantiated, evaluated and cycled by the daemon's own initialisation code in a "
                     "child process whose death is attributed to the logged case; documented-form configurations must be accepted."),
    "C03": dict(level="fault_enumeration", ref="5 (C03)", engine="l2", technique="runtime monitor: final-state oracle on the device after enumerated stop points x injected restore faults (in-process controller.Run; process-level daemon with real signals)",
                text="Regulation is stopped at enumerated points (n-th device I/O operation, delays falling into each wait, fatal stall error) while the virtual driver refuses / silently "
                     "ignores / pins the restore writes; the device state after shutdown must be 'original non-manual mode' or 'PWM 255'. The process-level layer sends 1..3 real "
                     "SIGTERM/SIGINT to the real daemon binary in each phase and checks exit status, absence of a Go panic trace and the same final-state predicate.",
                note="Trusted base: harness, virtual driver (refuse = error without effect, ignore = success without effect, stick = other value stored), gosensors stand-in; the "
                     "controller's fixed waits are divided by a time scale (tick rates unchanged). SIGKILL / power loss are outside the statement."),
    "C09": dict(level="fault_enumeration", ref="5 (C09)", engine="l2", technique="runtime monitor: crash monitor (child process per batch) plus liveness-or-restored oracle under enumerated I/O faults on a running closed loop",
                text="Single faults and pairs (component x kind x first hit x duration) are injected at the I/O boundary of a running controller + sensor monitor for every fan backend x "
                     "sensor backend x curve type; the process must survive and afterwards either keep evaluating the curve or have handed the fan back (C03 predicate).",
                note="Trusted base: harness, virtual driver, scripts for cmd backends; faults during the initial analysis are outside the statement ('at any control cycle') and not injected."),
    "C15": dict(level="exploration", ref="5 (C15)", engine="l2", technique="runtime monitor: offline checker over the fan-side write/read log of each start in generated start/reset/init sequences (in-process; process-level restarts of the real daemon and CLI)",
                text="For every start in generated sequences the device-side log before the first regulation cycle is checked: no PWM sweep and no RPM-curve measurement when the fan "
                     "was characterised before and nothing was discarded; never a sweep with a configured pwmMap; no RPM-curve measurement with minPwm+maxPwm configured (known finding).",
                note="Trusted base: harness, virtual driver; a start is emulated by fresh fan/controller objects on a real bbolt file; the process-level layer restarts the real binary."),
    "C16": dict(level="exploration", ref="5 (C16)", technique="runtime monitor: interval-overlap checker over a globally sequenced device event log, with a positive control run",
                text="Several real controllers analyse their fans concurrently; analysis intervals are taken from a globally sequenced event log and must be pairwise disjoint with the "
                     "option off; the same workload with the option on must overlap (otherwise the case does not count)."),
    "C17": dict(level="exploration", ref="5 (C17)", engine="l2", technique="runtime monitor: reference-model comparison of bound device paths on generated fake hwmon trees (in-process; process-level via detect / daemon start-up)",
                text="Generated hwmon trees with permuted enumeration order are read through the real enumeration and binding code; every generated selector must bind exactly the "
                     "paths a reference resolution derives from the tree description, or fail with an error naming the entry - never panic, never bind another device.",
                note="Trusted base: harness and the pure-Go gosensors stand-in (libsensors is not installed): its feature numbering mirrors libsensors'."),
    "C20": dict(level="exploration", ref="7 (C20)", engine="l2", technique="sanitizer: Go race detector (-race) on the real daemon under API / metrics load and on an in-process workload; reports deduplicated by innermost fan2go frame pair",
                text="The race-built real daemon (5-6 fans of all kinds sharing curves and sensors, millisecond rates, stall episodes) serves list / item / metrics requests from 8 client "
                     "threads while the plant moves; the race-built in-process harness wires the same activities at higher rates. Every report is identified by the pair of innermost "
                     "fan2go frames; pairs outside the listed known classes, runtime aborts and panics are violations.",
                note="Trusted base: the Go race detector (no false positives; misses races the run does not exercise), gosensors stand-in. The virtual driver and every other monitor "
                     "lock are kept out of race builds. Known findings are grouped per unguarded field (known_findings.txt)."),
}


def main():
    checks = []
    for pid in ALL:
        if pid not in CHECKS:
            continue
        c = CHECKS[pid]
        checks.append({
            "property_id": pid,
            "quick_cmd": "./check %s --tier quick" % pid,
            "thorough_cmd": "./check %s --tier thorough" % pid,
            "evidence_file": "/verif/evidence/%s.json" % pid,
            "replay_cmd_template": "./check %s --replay {path}" % pid,
            "engine": c.get("engine", "vh"),
            "level_claimed": {"category": c["level"], "text": c["text"], "design_ref": "DESIGN.md section " + c["ref"]},
            "level_note": c.get("note", L1_NOTE),
            "technique": c["technique"],
        })
    na = []
    for pid in ALL:
        if pid not in CHECKS:
            na.append({"property_id": pid, "reason": NOT_YET.get(pid, "check not built yet in this round (designed in DESIGN.md; not claimed until it runs)")})
    manifest = {
        "version": 1,
        "setup_cmd": "./check setup",
        "hooks": {
            "guard": "verif",
            "enable": "checks copy /repo's working tree to a scratch directory, add //go:build verif hook files from /verif/harness/hooks, "
                      "apply three mechanical rewrites to the copy and build with `go build -tags verif`; nothing is committed to /repo",
            "baseline_off_cmd": "/verif/baseline.sh",
            "source_commits": [],
            "add_only": True,
        },
        "engines": [
            {"name": "vh", "path": "/verif/harness/vh", "serves_properties": [p for p in ALL if p in CHECKS and CHECKS[p].get("engine", "vh") == "vh"],
             "kind_free_text": "in-process Go harness: generated workloads against the real packages with online monitors and reference models, one child process per batch"},
            {"name": "l2", "path": "/verif/lib", "serves_properties": [p for p in ALL if p in CHECKS and CHECKS[p].get("engine") == "l2"],
             "kind_free_text": "process-level harness: the real fan2go binary on fake hwmon trees with real signals, offline oracles over the I/O event log; Go race detector"},
        ],
        "checks": checks,
        "not_applicable": na,
        "notes": "Exit codes: 0 held, 1 VIOLATION (unlisted), 2 INCONCLUSIVE. Known findings: /verif/known_findings.txt. See DESIGN.md.",
    }
    with open(os.path.join(VERIF, "MANIFEST.json"), "w") as f:
        json.dump(manifest, f, indent=1)
    print("MANIFEST.json: %d checks, %d not claimed" % (len(checks), len(na)))


NOT_YET = {}

if __name__ == "__main__":
    main()
