"""Shared orchestration: run harness batches as child processes, merge their
results, compare violations with the committed known-findings file, write the
evidence file and decide the exit code (0 held / 1 VIOLATION / 2 INCONCLUSIVE).
"""
import concurrent.futures
import hashlib
import json
import os
import re
import shutil
import subprocess
import sys
import time

import vbuild

VERIF = vbuild.VERIF
KNOWN_FILE = os.path.join(VERIF, "known_findings.txt")


def seed():
    try:
        return int(os.environ.get("VERIF_SEED", "1"))
    except ValueError:
        return 1


def jobs():
    try:
        return max(1, int(os.environ.get("VERIF_JOBS", str(os.cpu_count() or 4))))
    except ValueError:
        return 8


def load_known():
    """Parse known_findings.txt: 'known:' lines suppress a signature, 'fixed:' lines suppress nothing."""
    out = []
    try:
        with open(KNOWN_FILE) as f:
            for line in f:
                m = re.match(r"^known: property=(\S+) signature=(\S+) (.*)$", line.rstrip("\n"))
                if m:
                    out.append({"property": m.group(1), "signature": m.group(2), "what_fails": m.group(3), "status": "known"})
    except FileNotFoundError:
        pass
    return out


class Merged:
    def __init__(self, prop):
        self.prop = prop
        self.evaluations = 0
        self.nontrivial = set()
        self.samples = []
        self.sample_kinds = set()
        self.violations = {}  # signature -> dict
        self.counters = {}
        self.maxima = {}
        self.sets = {}
        self.inconclusive = []
        self.extra = {}

    def add_result(self, res):
        self.evaluations += res.get("evaluations", 0)
        self.nontrivial.update(res.get("nontrivial") or [])
        for s in res.get("samples") or []:
            kind = None
            if isinstance(s, dict):
                kind = s.get("mode") or s.get("kind")
            if kind is not None:
                if kind in self.sample_kinds or len(self.samples) >= 8:
                    continue
                self.sample_kinds.add(kind)
                self.samples.append(s)
            elif len(self.samples) < 4:
                self.samples.append(s)
        for v in res.get("violations") or []:
            self.add_violation(v["signature"], v.get("detail", ""), v.get("replay"), v.get("count", 1))
        for k, v in (res.get("counters") or {}).items():
            if k.startswith("max_"):
                self.counters[k] = max(self.counters.get(k, 0), v)
            else:
                self.counters[k] = self.counters.get(k, 0) + v
        for k, v in (res.get("sets") or {}).items():
            self.sets.setdefault(k, set()).update(v)
        for r in res.get("inconclusive") or []:
            self.inconclusive.append(r)
        if res.get("harness_error"):
            self.inconclusive.append("harness error: " + res["harness_error"])
        for k, v in (res.get("extra") or {}).items():
            self.extra.setdefault(k, v)

    def add_violation(self, sig, detail, replay=None, count=1):
        if sig in self.violations:
            self.violations[sig]["count"] += count
        else:
            self.violations[sig] = {"signature": sig, "detail": detail, "replay": replay, "count": count}


def run_vh_batches(vh, prop, tier, nbatch, work, timeout, extra_args=None, merged=None, mode=None, env=None, workers=None):
    """Run `vh <prop>` in nbatch child processes; a crash of a child is attributed
    to the case it logged last."""
    merged = merged or Merged(prop)
    sd = seed()
    penv = vbuild.go_env()
    if env:
        penv.update(env)

    def one(b):
        out = os.path.join(work, "res-%s-%s-%d.json" % (prop, mode or "m", b))
        caselog = os.path.join(work, "case-%s-%s-%d.json" % (prop, mode or "m", b))
        errf = os.path.join(work, "err-%s-%s-%d.txt" % (prop, mode or "m", b))
        scratch = os.path.join(work, "scratch-%s-%s-%d" % (prop, mode or "m", b))
        os.makedirs(scratch, exist_ok=True)
        cmd = [vh, prop, "--seed", str(sd), "--tier", tier, "--batch", str(b), "--of", str(nbatch),
               "--out", out, "--caselog", caselog, "--scratch", scratch]
        if mode:
            cmd += ["--mode", mode]
        if extra_args:
            cmd += extra_args
        t0 = time.time()
        with open(errf, "w") as ef:
            try:
                p = subprocess.run(cmd, stdout=ef, stderr=subprocess.STDOUT, timeout=timeout, env=penv, cwd=work)
                rc = p.returncode
            except subprocess.TimeoutExpired:
                rc = "timeout"
        shutil.rmtree(scratch, ignore_errors=True)
        return b, rc, out, caselog, errf, time.time() - t0

    with concurrent.futures.ThreadPoolExecutor(max_workers=min(workers or jobs(), nbatch)) as ex:
        for b, rc, out, caselog, errf, dt in ex.map(one, range(nbatch)):
            if rc == 0 and os.path.exists(out):
                with open(out) as f:
                    merged.add_result(json.load(f))
                continue
            tail = ""
            try:
                with open(errf, errors="replace") as f:
                    full = f.read()
                # keep the line that says why the process died (it precedes the goroutine dump) and the end
                m0 = re.search(r"^(panic: .*|fatal error: .*)$", full, re.M)
                tail = (full[m0.start():m0.start() + 3000] + "\n...\n" if m0 else "") + full[-3000:]
            except OSError:
                pass
            case = None
            try:
                with open(caselog) as f:
                    case = json.load(f)
            except (OSError, ValueError):
                pass
            if rc == "timeout":
                merged.inconclusive.append("batch %d: watchdog (%ds) fired; last case: %s" % (b, timeout, json.dumps(case)[:500]))
            else:
                m = re.search(r"^(panic: .*|fatal error: .*)$", tail, re.M)
                what = m.group(1)[:80] if m else "exit %s" % rc
                sig = "process-crash:" + crash_class(tail, case)
                merged.add_violation(sig, "batch %d died (%s) while running the logged case\n%s" % (b, what, tail[-3000:]), case)
    return merged


def crash_class(tail, case):
    if isinstance(case, dict) and case.get("class"):
        return str(case["class"])
    m = re.search(r"^(panic: .*|fatal error: .*)$", tail, re.M)
    if m:
        return re.sub(r"0x[0-9a-f]+|\d+", "N", m.group(1))[:80]
    return "unknown"


def finish(prop, tier, level, merged, rule, assumptions, t0, extra_cov=None, min_nontrivial=2, exhaustive=None):
    """Write evidence, print verdict lines, return exit code."""
    known = [k for k in load_known() if k.get("property") == prop]
    known_active = {k["signature"]: k for k in known if k.get("status") == "known"}
    sd = seed()
    unlisted = []
    matched = []
    for sig, v in sorted(merged.violations.items()):
        if sig in known_active:
            matched.append(sig)
            print("KNOWN-FINDING: property=%s %s (%s; seen %d times in this run)" % (prop, known_active[sig].get("what_fails", sig), sig, v["count"]))
        else:
            unlisted.append(v)
    rc = 0
    rdir = os.path.join(os.environ.get("VERIF_REPLAY_DIR", os.path.join(VERIF, "replays")), prop)
    for v in unlisted:
        os.makedirs(rdir, exist_ok=True)
        name = re.sub(r"[^A-Za-z0-9_.-]+", "_", v["signature"])[:80] + "-%d.json" % sd
        path = os.path.join(rdir, name)
        with open(path, "w") as f:
            json.dump({"property": prop, "signature": v["signature"], "detail": v["detail"], "seed": sd, "tier": tier, "case": v.get("replay")}, f, indent=1)
        print("VIOLATION property=%s replay=%s" % (prop, path))
        print("  signature: %s" % v["signature"])
        print("  " + (v["detail"] or "").replace("\n", "\n  ")[:500])
        rc = 1
    distinct = len(merged.nontrivial)
    if rc == 0:
        if merged.inconclusive:
            rc = 2
        elif distinct < min_nontrivial or merged.evaluations < 1:
            merged.inconclusive.append("monitor observed too little: evaluations=%d distinct_nontrivial=%d" % (merged.evaluations, distinct))
            rc = 2
    for r in merged.inconclusive[:10]:
        print("INCONCLUSIVE property=%s reason=%s" % (prop, r.replace("\n", " ")[:600]))
    cov = {
        "evaluations": int(merged.evaluations),
        "distinct_nontrivial": int(distinct),
        "rule": rule,
        "samples": merged.samples[:8] or [{"note": "no sample recorded"}],
        "counters": merged.counters,
        "distinct_sets": {k: len(v) for k, v in merged.sets.items()},
        "known_findings_matched": matched,
        "unlisted_violations": [v["signature"] for v in unlisted],
        "inconclusive": merged.inconclusive[:10],
    }
    if exhaustive is not None:
        cov["exhaustive"] = bool(exhaustive)
    if extra_cov:
        cov.update(extra_cov)
    if merged.extra:
        cov["extra"] = merged.extra
    ev = {
        "property_id": prop,
        "tier": tier,
        "seed": sd,
        "level": level,
        "coverage": cov,
        "assumptions": assumptions,
        "wall_s": round(time.time() - t0, 2),
        "violations": len(unlisted),
        "repo": vbuild.repo_path(),
    }
    evdir = os.environ.get("VERIF_EVIDENCE_DIR", os.path.join(VERIF, "evidence"))
    os.makedirs(evdir, exist_ok=True)
    with open(os.path.join(evdir, prop + ".json"), "w") as f:
        json.dump(ev, f, indent=1, sort_keys=True)
    verdict = {0: "HELD", 1: "VIOLATED", 2: "INCONCLUSIVE"}[rc]
    print("%s property=%s tier=%s seed=%d evaluations=%d distinct_nontrivial=%d known=%d wall=%.1fs" % (
        verdict, prop, tier, sd, merged.evaluations, distinct, len(matched), time.time() - t0))
    return rc
