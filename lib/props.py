"""Per-property check drivers."""
import json
import re
import os
import shutil
import subprocess
import time

import vbuild
import vcheck

PROPS = {}

TRUST_L1 = [
    "harness drives the real fan2go packages in-process (scratch copy of the current tree, -tags verif)",
    "virtual sysfs driver behind util.ReadIntFromFile/WriteIntToFile/WriteIntToFileAtomic models hwmon files",
    "virtual clock replaces time.Now in util/pid.go only",
]


def build_vh(work, race=False):
    src = vbuild.prepare(work)
    out = os.path.join(work, "vh-race" if race else "vh")
    vbuild.build(work, src, "./internal/verif/vh", out, race=race)
    return src, out


EXACT_REPLAY = {"C01", "C02", "C04", "C05", "C10"}


def simple(prop, level, rule, assumptions, batches=(8, 16), timeout=(600, 3000), min_nontrivial=2, exhaustive=None):
    def run(p, tier, work, t0, replay):
        _src, vh = build_vh(work)
        nb = batches[0] if tier == "quick" else batches[1]
        to = timeout[0] if tier == "quick" else timeout[1]
        doc = None
        if replay and p in EXACT_REPLAY:
            with open(replay) as f:
                doc = json.load(f)
            if doc.get("case", doc) is None:
                doc = None  # a violation without a case of its own (concurrent layers): the deterministic case list is re-run
        if doc is not None:
            case = os.path.join(work, "replay-case.json")
            with open(case, "w") as f:
                json.dump(doc.get("case", doc), f)
            merged = vcheck.run_vh_batches(vh, p, tier, 1, work, to, extra_args=["--replay", case])
            merged.nontrivial.update(["replay-a", "replay-b"])
        else:
            merged = vcheck.run_vh_batches(vh, p, tier, nb, work, to)
        ex = None
        if exhaustive is not None:
            ex = exhaustive(tier)
        return vcheck.finish(p, tier, level, merged, rule, assumptions, t0, min_nontrivial=min_nontrivial, exhaustive=ex)
    PROPS[prop] = run


simple("C01", "exploration",
       "seeded random closed-loop histories (fan kind x limits x PWM map x control algorithm x curve trajectory incl. out-of-range values, "
       "dt incl. 0, stall episodes); a history is non-trivial when the algorithm output had to be clamped (curve outside 0..255), a stall "
       "raise happened, or a PID cycle ran with dt=0; distinct = distinct (fan kind, algorithm, map kind, limit source, trigger, plant, trajectory hash)",
       TRUST_L1 + ["PWM maps have outputs in 0..255 (as the statement requires)"])

simple("C02", "exploration",
       "seeded random histories of never-stop fans with constant-curve phases and stall episodes (plant reports 0 RPM below a threshold that jumps above the "
       "operating point); non-trivial = at least one minimum raise observed; distinct by (fan kind, limit source, algorithm, map, window, #raises, trajectory hash)",
       TRUST_L1 + ["the raised minimum is initial GetMinPwm() + exported MinPwmOffset statistic"])

simple("C12", "exploration",
       "exhaustive: every non-empty key subset of the universe ({0,1,2,64,127,128,254,255} quick; 12 keys thorough) x every partition into runs of equal outputs, "
       "each with all requests -50..305 through the real setPwm; plus seeded random full-size / non-monotonic / constant / single-entry maps and direct helper calls; "
       "non-trivial = map with >= 2 supported inputs; distinct by map content hash",
       TRUST_L1 + ["fan without PWM read-back, so that no write is skipped"],
       exhaustive=lambda tier: True)


simple("C18", "exploration",
       "exhaustive grid: owner {root, 1000} x group {root, 1000} x all 512 permission modes x {direct path, symlink owned by a non-root user} through "
       "util.SafeCmdExecution (4096 files), a reduced mode grid through CmdSensor and the three CmdFan commands, ownership/mode flips between consecutive "
       "executions in both directions, and the configuration-file rule over uid x gid x modes x {no cmd entry, cmd sensor, cmd fan}; each file is a script "
       "appending to a marker file, so execution is observed from outside; every case is distinct and non-trivial (it decides permit/refuse)",
       ["runs as root (needed to construct ownership cases)", "check-to-exec TOCTOU window is not claimed by the statement"],
       batches=(8, 8), exhaustive=lambda tier: True)

simple("C19", "fault_enumeration",
       "failure-mode enumeration (exit != 0 with/without output, killed by signal, not executable, bad exec format, missing interpreter, file removed/re-created "
       "concurrently, sleeping beyond the deadline directly / as child / ignoring SIGTERM, grandchild holding stdout, empty / non-numeric / 50 MB output, 100-200 KB of stderr "
       "with and without line breaks, 2048 / 2049 stderr bytes, binary stderr) x timeouts "
       "{0.2, 1} s quick, {0.2, 0.5, 1, 2} s thorough through util.SafeCmdExecution, plus the CmdSensor and CmdFan wrappers (2 s); distinct = (mode, entry point, timeout)",
       ["wall-clock oracle with grey zone: elapsed <= timeout+1.0 s passes, >= timeout+2.5 s is a violation (offending scripts overrun by 4 s), in between is retried and then inconclusive",
        "at most 4 commands in flight per batch"],
       batches=(4, 4), timeout=(900, 3000))


simple("C06", "exploration",
       "seeded random curves evaluated through the real curve objects over scripted sensors: linear min/max and step curves at boundary temperatures (+-0.5/1 m-degree, "
       "+-1 degree), +-0, +-1e-300, +-1e300, +-MaxFloat64/4 and random values against a float64 reference (|v - lerp| < 1; the rounding mode is not part of the statement); function trees (6 types, 1..8 members, "
       "depth <= 4, shared stateless leaves) checked compositionally at every node in exact integers; PID curves against an independent model of the loop on a virtual clock "
       "(dt 1 ms..1 h); non-trivial: linear curve hit all three regions / step curve with >= 2 steps / function tree / PID trajectory with an unsaturated output; distinct by content hash",
       TRUST_L1 + ["PID cases whose pre-truncation value is within 1e-9 of an integer are skipped and counted", "dt > 0 (dt = 0 is exercised under C01)"])

simple("C07", "exploration",
       "seeded random monotone configurations: linear min/max, step sets with non-decreasing speeds, sum/max/min/average trees (depth <= 3) over such members sharing or not sharing "
       "sensors (all sensors rising together, or one rising with the others fixed); the temperature is swept upward on a grid of 1 m-degree near every boundary (+-200 m-degree) and "
       "100 m-degree elsewhere and the output must never decrease; controller part: curve value 0..255 -> (request, device PWM) with the direct algorithm over random limits and "
       "non-decreasing PWM maps; non-trivial = the output rose at least once during the sweep; distinct by configuration hash",
       TRUST_L1)


simple("C13", "exploration",
       "real HwMonFan objects: exhaustive curves on up to 3 (quick) / 4 (thorough) of the keys {0,1,63,128,254,255} with RPM in {0, 0.4, 1, 500, 500.9, 2000} cycling through the "
       "8 combinations of configured min/start/max and neverStop; plus seeded random cases (single point, all-zero, plateaus with sub-RPM jitter, non-monotonic, full-size, sparse) "
       "with attach sequences of length 1..4 incl. nil and empty data; reference computed from the data; non-trivial = at least one accepted attachment; distinct by case hash",
       TRUST_L1 + ["keys whose RPM lies in (0,1) may count as zero or non-zero for the start PWM (the statement does not say)",
                   "for all-zero data and for an unconfigured minimum only range/stability/configured-values-kept are required"],
       batches=(8, 16))


simple("C05", "exploration",
       "systematic: one interference (mode in {none,0,2,3} x pwm in {none, 0..255 step 8 quick / step 1 thorough}) placed at cycle index {1,2,7,40} quick / 1..40 thorough for identity, "
       "sparse README and idempotent quantiser maps, random curve trajectory and algorithm; plus seeded random 120-cycle histories with several interferences incl. interference in the "
       "middle of a cycle (n-th file operation); oracle after the next complete cycle: manual mode, device PWM = map[nearest(request)], counter +1 iff the intruder left a different "
       "PWM, +0 otherwise; cmd-fan histories (tool busy for a cycle, unreadable in the cycle after the interference, read-back tool that writes a diagnostic to stderr while the device "
       "is not what was last set); non-trivial = history whose interference was actually applied; distinct by scenario hash",
       TRUST_L1 + ["device reads back what was written (identity device, or idempotent nearest-level quantiser with the matching PWM map)",
                   "counter exactness is only required for interference while the controller is quiescent (between cycles)"])


simple("C04", "exploration",
       "per fan range (8 fixed boundary ranges + seeded random ones; 12 quick / 400 thorough) and a maxPwmChangePerCycle m from {1,2,3,10,50,254,255,random}: the steady map S(c) of the "
       "plain direct algorithm is observed for all 256 curve values (S(0)=min, S(255)=max, non-decreasing); then fresh controllers are started from device PWM x (13 boundary/random starts "
       "quick, all 256 thorough) at constant curve c (all / every 5th resp. 3rd value) and run for ceil(255/m)+5 cycles: settled within ceil(255/m)+1 at S(c), |delta| <= m, monotone; "
       "default PID with ticks {50,200,1000,2000} ms in virtual time from random starts and after adversarial histories (1-24 h idling at curve 0/255, alternating extremes, random walk, "
       "steps): |request - S(c)| <= 1 in every cycle of [1200, 1500]; non-trivial = configuration/run that completed all clauses; distinct by (range, m) resp. (range, tick, c, history class, start)",
       TRUST_L1 + ["liveness restated as bounded progress: N = 1200 cycles for the default PID (3x the worst settling observed on the unchanged algorithm), ceil(255/m)+1 for rate limits",
                   "fan without RPM sensor, so that the stall logic does not interfere"],
       batches=(12, 16), timeout=(900, 3400))


simple("C10", "exploration",
       "seeded random stall scenarios: never-stop hwmon (configured / measured limits), file, cmd and model fans x window n in {1,2,3,5,10,20,50} x prior RPM average in "
       "{0,1,300,1500,10000} x plant threshold in {min+1, mid, max, never spins} x poll:cycle ratio {1:1, 5:1, 1:5} x {direct, rate-limited}; logical steps only. Oracle: every raise "
       "comes within B(n)=25n+25 polls of the first 0 reading / the previous raise while the fan reports 0 RPM; at the maximum the cycle ends with ErrFanStalledAtMaxPwm and not before; "
       "non-trivial = scenario in which the fan really stalled and was raised until it span or was reported stalled at max; distinct by (fan, window, threshold, prior, ratio, algorithm, #raises, outcome)",
       TRUST_L1 + ["liveness restated as bounded progress in RPM polls: B(n) = 25*n + 25"],
       batches=(8, 16))


simple("C08", "fault_enumeration",
       "the real sensor-monitor step on real hwmon / file sensors (virtual driver: content, ENOENT, EIO, EACCES, empty, non-numeric) and cmd sensors (scripts: exit 1, garbage, "
       "empty, nan, inf, -Infinity, time-out): exhaustive placement of every fault kind in all sequences up to length 4 (hwmon/file) / 3 (cmd) quick, 6 / 4 thorough, plus seeded random "
       "60-poll sequences with window sizes 1..100 and readings up to +-2^50 (files) / +-1e300 (cmd); oracle per poll: hull, geometric convergence on repeated readings, bit-identical "
       "average after a failed / non-finite read; non-trivial = sequence with at least one fault and one good reading; distinct by sequence hash",
       TRUST_L1 + ["tolerance tau = 4 ulp of the largest magnitude seen (floating point may step one ulp outside the hull)", "readings restricted to |x| <= 1e300 so that x - avg cannot overflow"],
       batches=(8, 16))


simple("C11", "exploration",
       "seeded random YAML texts taken through viper -> LoadConfig -> Validate: one third assembled only from documented forms (all fan / sensor / curve kinds, both spellings of "
       "controlAlgorithm, step lists, nested function curves) which must be accepted; two thirds hostile (curve cycles of length 1..8, dangling references, function curves "
       "without members, unknown function type, steps as list / map / [] / {} / null / singleton, duplicate and empty ids, 0 or 2 backends, controlAlgorithm {} / direct {} / "
       "direct null / zero PID / maxPwmChangePerCycle <= 0, deprecated controlLoop, hwmon index/channel combinations). Every accepted text is checked against a reference "
       "(unique ids, one backend, resolvable references, acyclic graph) and instantiated by the daemon's own InitializeObjects / initializeFanControllers on file, cmd and "
       "fake-hwmon devices, all curves evaluated under 5 sensor states, two control cycles per fan; one child process per batch with the case logged before it runs "
       "(stack overflow / fatal errors are attributed to it); non-trivial = accepted text that was instantiated, or rejected hostile text; distinct by text hash resp. feature class",
       TRUST_L1 + ["ids carry a per-case prefix because fan2go's registries are process-global", "prometheus.DefaultRegisterer is replaced per case"],
       batches=(16, 64), timeout=(900, 3000))


simple("C03", "fault_enumeration",
       "in-process layer: controller.Run on hwmon/file devices in the virtual driver; regulation stopped when the n-th device I/O operation is issued (n random in 1..400 resp. 1..1500 "
       "with initial analysis, and densely in 1..12) or after a delay falling into the start-up wait / first-second delay / ticking, or never (fan stalls at maximum = fatal control error); "
       "x original mode {0,1,2,5} x original PWM {0,77,255} x with/without control mode x restore faults {mode write refused / silently ignored / sticks to 1, PWM write refused}; "
       "oracle on the device state after Run returned; non-trivial = stop point reached; distinct by (class, stop point)",
       TRUST_L1 + ["fixed waits of the controller divided by 50 (tick rates 3-4 ms)"], batches=(16, 32))


simple("C09", "fault_enumeration",
       "in-process layer: real controller.Run + sensor monitor on a closed loop; single faults = component {sensor read, RPM read, PWM read, PWM write, mode write} x kind {EIO, EACCES, "
       "empty, garbage; cmd: exit 1, garbage} x first hit at operation {1, 2, 12} on that path x duration {1, 6, for good}, for fan backend {hwmon, file, cmd} x sensor backend {hwmon, "
       "file, cmd} x curve {linear, PID, function(linear, PID), function(function)} (seeded sample of 420 in quick, all in thorough), plus seeded random pairs of faults; oracle: process "
       "alive, and after the window either the curve keeps being evaluated or the fan satisfies the C03 final-state predicate; non-trivial = every injected fault point was reached; "
       "distinct by (combination, faults)",
       TRUST_L1 + ["one child process per batch; its death is attributed to the case logged before it ran", "fixed waits of the controller divided by 50 (tick rates 3-4 ms)"],
       batches=(16, 48), timeout=(400, 3400))


simple("C16", "exploration",
       "seeded random scenarios of 2..4 real controllers (hwmon fans on quantising virtual devices with 3/4/6/9 levels = different analysis lengths) starting after random delays "
       "(0..150 ms, fixed waits divided by 50), through RunInitializationSequence() or Run(); every device event has a global sequence number; analysis interval = [first write to "
       "the fan, call storing its RPM curve]; with runFanInitializationInParallel false no two intervals may overlap (logical order); positive control: the same workload with the "
       "option true must show an overlap; variants: file fans (sweep only), stored curves with unreadable maps, configured maps, option given through the configuration file / "
       "environment, metrics scrapes, a failing first analysis, a stop request during the first analysis, file fans whose PWM file cannot be read for the first 1..4 reads; "
       "non-trivial = scenario whose positive control overlapped; distinct by (fans, entry point, levels, delays)",
       TRUST_L1 + ["fixed waits of the controller divided by 50"], batches=(8, 16), timeout=(600, 3000))


simple("C15", "exploration",
       "in-process layer: seeded random sequences of start / reset / init (3..7 operations, first and last a start) against one real bbolt database for hwmon, file and cmd fans, with / "
       "without a configured pwmMap, with / without configured minPwm+maxPwm; a start = new fan and controller objects + Run() until the first regulation cycle; observed before that "
       "cycle: distinct PWM values written (a sweep writes 256) and RPM reads (only the RPM-curve measurement reads RPM then); non-trivial = sequence containing a start with stored data; "
       "distinct by (fan class, operation sequence)",
       TRUST_L1 + ["fixed waits of the controller divided by 50", "a start is emulated by fresh objects in the same process; the process-level layer restarts the real daemon"],
       batches=(8, 16), timeout=(600, 3000))


simple("C17", "exploration",
       "in-process layer: seeded random fake hwmon trees (1..4 chips with distinct names, fan inputs on random channel subsets of 1..6, temperature inputs on random indices incl. "
       "features without an input file, pwm controls on all channels, random enumeration ORDER) read by the real hwmon.GetChips() through the gosensors stand-in; per tree 12 fan "
       "selectors (platform x index | rpmChannel x optional pwmChannel, incl. unknown platform and non-existing index/channel) through UpdateFanConfigFromHwMonControllers and 6 "
       "sensor selectors through the daemon's InitializeObjects; whole configurations of existing devices, and whole configurations with one unbindable hwmon fan entry at a random "
       "position among bindable fans (start-up must fail naming it); bound paths compared with a reference resolution; non-trivial = selector of an existing device; distinct by (selector, tree shape, order)",
       TRUST_L1 + ["the stand-in numbers features like libsensors (by type, then number; names fanN / tempN)", "platform patterns match exactly one chip"],
       batches=(8, 16))


def c14(p, tier, work, t0, replay):
    _src, vh = build_vh(work)
    q = tier == "quick"
    merged = vcheck.run_vh_batches(vh, p, tier, 8 if q else 16, work, 900 if q else 3000)
    vcheck.run_vh_batches(vh, p, tier, 4 if q else 12, work, 900 if q else 3000, merged=merged, mode="crash")
    vcheck.run_vh_batches(vh, p, tier, 4 if q else 8, work, 900 if q else 3000, merged=merged, mode="lin")
    rule = ("three monitors on the real persistence package (real bbolt file): (1) seeded random sequential histories of save/load/delete/reopen/corrupt-inject over 1..5 fan ids x "
            "both kinds with arbitrary maps, all keys re-loaded and compared with an in-memory model after every step; (2) crash points: a worker process executing a logged "
            "script is killed by strace-injected SIGKILL at every k-th pwrite64 / fdatasync / ftruncate it performs and at random times, a fresh process dumps the database, the "
            "in-flight entry must be old or new and every other entry its last acknowledged value; (3) concurrent goroutine and process clients (some killed mid-call, their open "
            "calls kept open to the end) checked for linearizability with porcupine, partitioned by key; non-trivial: history with saves and deletes / kill that landed inside an "
            "operation (distinct crash point) / distinct observed interleaving")
    return vcheck.finish(p, tier, "fault_enumeration", merged, rule,
                         ["process kill leaves the page cache intact: power loss / torn sectors are not covered", "strace when=k counts per thread; the worker locks its OS thread",
                          "porcupine v1.3.0, 60 s checker timeout (timeout = inconclusive)"], t0)


PROPS["C14"] = c14


def setup():
    """Warm the Go build cache: build the harness (plain and -race) and the daemon once."""
    t0 = time.time()
    work = vbuild.mkworkdir("setup")
    try:
        src, vh = build_vh(work)
        vbuild.build(work, src, ".", os.path.join(work, "fan2go"))
        vbuild.build(work, src, ".", os.path.join(work, "fan2go-race"), race=True)
        vbuild.build(work, src, "./internal/verif/vh", os.path.join(work, "vh-race"), race=True)
        print("setup ok in %.1fs" % (time.time() - t0))
        return 0
    except vbuild.Inconclusive as e:
        print("setup failed: %s" % e)
        return 2
    finally:
        shutil.rmtree(work, ignore_errors=True)


# ---------------------------------------------------------------------------------------------
# C20 — data races: the race-built real daemon under API / metrics load (process level) and the
# race-built in-process harness.
import l2  # noqa: E402
import random  # noqa: E402
import signal as _signal  # noqa: E402
import threading  # noqa: E402


FAN_T = r"internal/fans\.\(\*(HwMon|File|Cmd)Fan\)\."
C20_GROUPS = [
    # (group name, regex over "a|b" with a <= b lexicographically)
    ("fan-state-marshalled-by-api-without-lock",
     r"^internal/api\.getFans?\|(" + FAN_T + r"(GetPwm|GetRpm|SetRpmAvg|SetMinPwm|SetMaxPwm|SetStartPwm|AttachFanRpmCurveData|UpdateFanRpmCurveValue)|internal/controller\.\(\*DefaultFanController\)\.(Run|RunInitializationSequence)|internal/persistence\.persistence\.LoadFanPwmData\.func)$"),
    ("fan-state-marshalled-by-api-without-lock",
     r"^(" + FAN_T + r"(GetPwm|GetRpm|SetRpmAvg|SetMinPwm|SetMaxPwm|SetStartPwm|AttachFanRpmCurveData|UpdateFanRpmCurveValue)|internal/controller\.\(\*DefaultFanController\)\.(Run|RunInitializationSequence))\|internal/fans\.SnapshotFanMap$"),
    ("fan-state-marshalled-by-api-without-lock",
     r"^internal/fans\.SnapshotFanMap\|internal/persistence\.persistence\.LoadFanPwmData\.func$"),
    ("fan-cache-fields-written-by-concurrent-readers",
     r"^" + FAN_T + r"(GetPwm|GetRpm|GetRpmAvg|SetRpmAvg)\|" + FAN_T + r"(GetPwm|GetRpm|GetRpmAvg|SetRpmAvg)$"),
    ("curve-value-marshalled-by-api-without-lock",
     r"^internal/api\.getCurves?\|internal/curves\.\(\*(Linear|Pid|Function)SpeedCurve\)\.SetValue$"),
    ("curve-value-marshalled-by-api-without-lock",
     r"^internal/curves\.\(\*(Linear|Pid|Function)SpeedCurve\)\.SetValue\|internal/curves\.SnapshotSpeedCurveMap$"),
    ("sensor-average-marshalled-by-api-without-lock",
     r"^internal/api\.getSensors?\|internal/sensors\.\(\*(Hwmon|File|Cmd)Sensor\)\.(SetMovingAvg|GetMovingAvg)$"),
    ("sensor-average-marshalled-by-api-without-lock",
     r"^internal/sensors\.\(\*(Hwmon|File|Cmd)Sensor\)\.(SetMovingAvg|GetMovingAvg)\|internal/sensors\.SnapshotSensorMap$"),
    ("controller-statistics-read-by-metrics-collector-without-lock",
     r"^internal/controller\.\(\*DefaultFanController\)\.GetStatistics\|internal/controller\.\(\*DefaultFanController\)\.(increaseMinPwmOffset|ensureNoThirdPartyIsMessingWithUs)$"),
    ("controller-lastSetPwm-read-by-rpm-monitor-without-lock",
     r"^internal/controller\.\(\*DefaultFanController\)\.getPwm\|internal/controller\.\(\*DefaultFanController\)\.setPwm$"),
    ("pid-loop-of-a-curve-shared-by-several-fans",
     r"^internal/util\.\(\*PidLoop\)\.Loop<internal/curves\.\(\*PidSpeedCurve\)\.Evaluate\|internal/util\.\(\*PidLoop\)\.Loop<internal/curves\.\(\*PidSpeedCurve\)\.Evaluate$"),
]


def c20_signature(a, b):
    pair = "%s|%s" % (a, b)
    for name, rx in C20_GROUPS:
        if re.match(rx, pair):
            return "race:" + name
    return "race:%s" % pair


def c20_cut_stack(merged, a, b):
    """A report in which one access is a shared helper without its caller (the detector's history of that goroutine had
    been overwritten) cannot be attributed to a listed or an unlisted pair: it is counted and shown in the evidence, not
    decided - unless the other access comes from the metrics collectors or the REST API, which no listed pair does."""
    if not (l2.cut_stack(a) or l2.cut_stack(b)):
        return False
    other = b if l2.cut_stack(a) else a
    if "@" in other and not l2.cut_stack(other):
        return False
    merged.counters["race_reports_with_a_cut_stack_not_attributable"] = merged.counters.get("race_reports_with_a_cut_stack_not_attributable", 0) + 1
    merged.sets.setdefault("race_reports_with_a_cut_stack", set()).add("%s|%s" % (a, b))
    return True


def c20_config(work, tree_root, p_api, p_stat, variant):
    cmd = os.path.join(work, "cmd")
    os.makedirs(cmd, exist_ok=True)
    l2.write(os.path.join(cmd, "pwm"), "100\n")
    l2.write(os.path.join(cmd, "set.sh"), "#!/bin/sh\necho \"$1\" > %s/pwm\n" % cmd, 0o755)
    l2.write(os.path.join(cmd, "get.sh"), "#!/bin/sh\ncat %s/pwm\n" % cmd, 0o755)
    l2.write(os.path.join(cmd, "rpm.sh"), "#!/bin/sh\necho 1300\n", 0o755)
    l2.write(os.path.join(cmd, "temp.sh"), "#!/bin/sh\necho 52000\n", 0o755)
    l2.write(os.path.join(work, "filefan"), "90\n")
    l2.write(os.path.join(work, "filefan_rpm"), "1100\n")
    l2.write(os.path.join(work, "filesensor"), "48000\n")
    rates = {0: ("2ms", "2ms", "3ms"), 1: ("1ms", "3ms", "2ms"), 2: ("5ms", "1ms", "5ms")}[variant % 3]
    extra_fans = ""
    if variant % 2 == 1:
        extra_fans = """
  - id: f6
    hwmon:
      platform: chipb
      index: 1
    neverStop: false
    curve: pidc
    controlAlgorithm: pid
"""
    # every second topology gives the file fan its paths in the documented "~" form (joined to the home directory by
    # fan2go; enough ".." lead back to the root)
    tilde = "~" + "/.." * 12
    curve_entries = [
        '  - id: lin\n    linear:\n      sensor: cpu\n      min: 30\n      max: 70\n',
        '  - id: steps\n    linear:\n      sensor: board\n      steps:\n        - 30: 0\n        - 50: 100\n        - 80: 255\n',
        '  - id: pidc\n    pid:\n      sensor: board\n      setPoint: 50\n      p: -0.05\n      i: -0.005\n      d: -0.005\n',
        '  - id: avg\n    function:\n      type: average\n      curves:\n        - lin\n        - pidc\n        - steps\n',
        '  - id: mx\n    function:\n      type: maximum\n      curves:\n        - lin\n        - avg\n',
    ]
    # the listing order of the curves is the user's choice: members first (as in the README) or the function curves first
    if variant % 2 == 1:
        curve_entries.reverse()
    return """dbPath: {work}/fan2go.db
runFanInitializationInParallel: true
maxRpmDiffForSettledFan: 20
fanResponseDelay: 0
tempSensorPollingRate: {t}
tempRollingWindowSize: 3
rpmPollingRate: {r}
rpmRollingWindowSize: 2
controllerAdjustmentTickRate: {c}
api:
  enabled: true
  host: 127.0.0.1
  port: {p_api}
statistics:
  enabled: true
  port: {p_stat}
sensors:
  - id: cpu
    hwmon:
      platform: chipa
      index: 1
  - id: board
    file:
      path: {work}/filesensor
  - id: ext
    cmd:
      exec: {work}/cmd/temp.sh
curves:
{curves}fans:
  - id: f1
    hwmon:
      platform: chipa
      rpmChannel: 1
    neverStop: true
    minPwm: 20
    maxPwm: 250
    curve: lin
    controlAlgorithm: direct
  - id: f2
    hwmon:
      platform: chipa
      rpmChannel: 2
    neverStop: false
    curve: lin
    pwmMap:
      0: 0
      64: 128
      192: 255
  - id: f3
    hwmon:
      platform: chipa
      rpmChannel: 3
      pwmChannel: 3
    neverStop: true
    curve: avg
    controlAlgorithm:
      direct:
        maxPwmChangePerCycle: 5
  - id: f4
    file:
      path: {ffpath}
      rpmPath: {ffrpm}
    neverStop: false
    curve: mx
    pwmMap:
      0: 0
      100: 100
      255: 255
  - id: f5
    cmd:
      setPwm:
        exec: {work}/cmd/set.sh
        args: [ "%pwm%" ]
      getPwm:
        exec: {work}/cmd/get.sh
      getRpm:
        exec: {work}/cmd/rpm.sh
    neverStop: false
    curve: pidc
    controlAlgorithm: direct{extra}
""".format(work=work, t=rates[0], r=rates[1], c=rates[2], p_api=p_api, p_stat=p_stat, extra=extra_fans, curves="".join(curve_entries),
           ffpath=(tilde + work if variant % 2 == 1 else work) + "/filefan", ffrpm=(tilde + work if variant % 2 == 1 else work) + "/filefan_rpm")


def c20_one_run(binary, work, idx, duration, merged, rng):
    """One topology; the daemon is restarted when the Go runtime aborts it (a reported violation of its own),
    until `duration` seconds of load have been applied."""
    rd = os.path.join(work, "run%d" % idx)
    os.makedirs(rd, exist_ok=True)
    tree = l2.Tree(os.path.join(rd, "hwmon"))
    chipa = tree.chip("chipa", fans=(1, 2, 3), temps=(1, 2), orig_mode=2, orig_pwm=110, rpm=1200)
    tree.chip("chipb", fans=(1,), temps=(1,), orig_mode=2, orig_pwm=80, rpm=900)
    nfans = 6 if idx % 2 == 1 else 5
    applied = 0.0
    starts = 0
    all_counts = {}
    while applied < duration and starts < 8:
        starts += 1
        p_api, p_stat = l2.free_port(), l2.free_port()
        cfg = c20_config(rd, tree.root, p_api, p_stat, idx)
        racelog = os.path.join(rd, "race%d" % starts)
        d = l2.Daemon(binary, rd, cfg, tree.root, driver=None, timescale=20, gorace="halt_on_error=0 exitcode=0 history_size=5 log_path=%s" % racelog, name="daemon%d" % starts)
        try:
            base = "http://127.0.0.1:%d" % p_api
            # requests start as soon as the API answers, i.e. while the controllers are still starting up (their
            # start-up code shares maps with the API as well)
            early = l2.HttpLoad([base + p for p in ("/fan/", "/fan/f2/", "/fan/f4/", "/sensor/", "/curve/")], threads=3)
            early.start()
            ok = d.wait_for(r"(?s)(Starting controller loop.*){%d}" % nfans, 120)
            ecounts, _ = early.finish()
            merged.counters["http_requests_during_start_up"] = merged.counters.get("http_requests_during_start_up", 0) + sum(ecounts.values())
            if not ok:
                if d.p.poll() is not None and re.search(r"^fatal error: ", d.output(), re.M):
                    out0 = d.output()
                    fatal0 = re.search(r"^fatal error: (.*)$", out0, re.M)
                    merged.add_violation("daemon-aborted:" + re.sub(r"\W+", "-", fatal0.group(1))[:60], "run %d (during start-up): %s\n%s" % (idx, fatal0.group(0), out0[out0.find("fatal error"):][:1500]), {"run": idx})
                    continue
                merged.inconclusive.append("run %d: daemon did not reach regulation for all fans: %s" % (idx, d.output()[-800:].replace("\n", " | ")))
                return
            urls = [base + p for p in ("/sensor/", "/sensor/cpu/", "/sensor/board/", "/curve/", "/curve/lin/", "/curve/avg/", "/curve/pidc/", "/alive/", "/fan/f5/")]
            # the fan endpoints iterate the live RPM-curve map; the Go runtime aborts the daemon quickly when they are
            # hit at full rate (known finding), so they are mixed in at a lower rate after the first start
            fan_urls = [base + p for p in ("/fan/", "/fan/f1/", "/fan/f3/", "/fan/f4/")]
            urls += fan_urls if starts == 1 else fan_urls[starts % 4:starts % 4 + 1]
            urls += ["http://127.0.0.1:%d/metrics" % p_stat] * 3
            load = l2.HttpLoad(urls, threads=8)
            load.start()
            stop = threading.Event()

            def plant():
                # temperature ramps and short stall episodes of the never-stop fans (atomic replace: the daemon never sees a half-written file)
                k = 0
                while not stop.is_set():
                    k += 1
                    t = 35000 + (k * 700) % 40000
                    l2.write_atomic(os.path.join(chipa, "temp1_input"), "%d\n" % t)
                    l2.write_atomic(os.path.join(rd, "filesensor"), "%d\n" % (80000 - t))
                    if k % 40 < 3:
                        l2.write_atomic(os.path.join(chipa, "fan1_input"), "0\n")
                        l2.write_atomic(os.path.join(chipa, "fan3_input"), "0\n")
                    else:
                        l2.write_atomic(os.path.join(chipa, "fan1_input"), "%d\n" % (1000 + k % 300))
                        l2.write_atomic(os.path.join(chipa, "fan3_input"), "%d\n" % (1100 + k % 200))
                    time.sleep(0.01)
            pt = threading.Thread(target=plant, daemon=True)
            pt.start()
            t_load = time.time()
            while time.time() - t_load < duration - applied and d.p.poll() is None:
                time.sleep(0.05)
            applied += time.time() - t_load
            stop.set()
            pt.join(timeout=5)
            counts, errors = load.finish()
            died = d.p.poll() is not None
            if not died:
                d.signal(_signal.SIGTERM)
                if d.wait(60) is None:
                    merged.inconclusive.append("run %d: daemon did not exit within 60 s after SIGTERM" % idx)
            out = d.output()
            fatal = re.search(r"^fatal error: (.*)$", out, re.M)
            if fatal:
                merged.add_violation("daemon-aborted:" + re.sub(r"\W+", "-", fatal.group(1))[:60], "run %d: %s\n%s" % (idx, fatal.group(0), out[out.find("fatal error"):][:1500]), {"run": idx})
                merged.counters["daemon_starts_aborted_by_runtime"] = merged.counters.get("daemon_starts_aborted_by_runtime", 0) + 1
            elif l2.has_panic(out):
                pm = l2.has_panic(out)
                merged.add_violation("daemon-panicked:" + re.sub(r"0x[0-9a-f]+|\d+", "N", pm)[:80], "run %d: %s\n%s" % (idx, pm, out[out.find(pm):][:1500]), {"run": idx})
            elif died:
                merged.counters["daemon_exited_on_its_own"] = merged.counters.get("daemon_exited_on_its_own", 0) + 1
            merged.counters["http_requests"] = merged.counters.get("http_requests", 0) + sum(counts.values())
            merged.counters["daemon_starts"] = merged.counters.get("daemon_starts", 0) + 1
            for path, n in counts.items():
                key = re.sub(r"/(f\d|cpu|board|lin|avg|pidc)/", "/<id>/", path)
                merged.sets.setdefault("endpoints", set()).add(key)
                merged.counters["req:" + key] = merged.counters.get("req:" + key, 0) + n
                all_counts[key] = all_counts.get(key, 0) + n
            merged.evaluations += sum(counts.values())
        finally:
            d.close()
    reports = l2.parse_race_logs(rd, "race")
    merged.counters["race_report_blocks"] = merged.counters.get("race_report_blocks", 0) + len(reports)
    for rep in reports:
        a, b = rep["pair"]
        if "internal/verif" in a or "internal/verif" in b:
            merged.inconclusive.append("race report inside the harness itself: %s | %s" % (a, b))
            continue
        if c20_cut_stack(merged, a, b):
            continue
        sig = c20_signature(a, b)
        merged.add_violation(sig, "run %d: %s | %s\n%s" % (idx, a, b, rep["text"][:2500]), {"run": idx, "pair": [a, b]})
        merged.nontrivial.add("pair:%s|%s" % (a, b))
        merged.sets.setdefault("race_pairs", set()).add("%s|%s" % (a, b))
    if len(merged.samples) < 2:
        merged.samples.append({"kind": "daemon-run-%d" % idx, "fans": nfans, "seconds_of_load": round(applied, 1), "daemon_starts": starts, "requests": all_counts, "race_report_blocks": len(reports)})


def c20(p, tier, work, t0, replay):
    src = vbuild.prepare(work)
    binary = vbuild.build(work, src, ".", os.path.join(work, "fan2go-race"), race=True)
    merged = vcheck.Merged(p)
    rng = random.Random(vcheck.seed())
    runs, duration = (2, 8) if tier == "quick" else (16, 25)
    par = 2 if tier == "quick" else 4
    import concurrent.futures
    with concurrent.futures.ThreadPoolExecutor(max_workers=par) as ex:
        futs = [ex.submit(c20_one_run, binary, work, vcheck.seed() * 100 + i, duration, merged, rng) for i in range(runs)]
        for f in futs:
            f.result()
    # in-process race harness: the same objects at higher rates, without the start-up waits
    vh = vbuild.build(work, src, "./internal/verif/vh", os.path.join(work, "vh-race"), race=True)
    racelog = os.path.join(work, "vhrace")
    sub = vcheck.run_vh_batches(vh, "C20", tier, 2 if tier == "quick" else 8, work, 600 if tier == "quick" else 3000,
                                env={"GORACE": "halt_on_error=0 exitcode=0 history_size=5 log_path=%s" % racelog})
    merged.evaluations += sub.evaluations
    merged.inconclusive += sub.inconclusive
    for k, v in sub.counters.items():
        merged.counters[k] = merged.counters.get(k, 0) + v
    for sig, v in sub.violations.items():
        if "concurrent map" in sig or "concurrent map" in v["detail"]:
            m = re.search(r"fatal error: (concurrent map [a-z ]+)", v["detail"])
            sig = "daemon-aborted:" + re.sub(r"\W+", "-", m.group(1) if m else "concurrent map access")[:60]
        merged.add_violation(sig, v["detail"], v.get("replay"), v.get("count", 1))
    for rep in l2.parse_race_logs(work, "vhrace"):
        a, b = rep["pair"]
        merged.counters["race_report_blocks"] = merged.counters.get("race_report_blocks", 0) + 1
        if c20_cut_stack(merged, a, b):
            continue
        sig = c20_signature(a, b)
        merged.add_violation(sig, "in-process harness: %s | %s\n%s" % (a, b, rep["text"][:2500]), {"pair": [a, b]})
        merged.nontrivial.add("pair:%s|%s" % (a, b))
        merged.sets.setdefault("race_pairs", set()).add("%s|%s" % (a, b))
    merged.nontrivial.update("endpoint:" + e for e in merged.sets.get("endpoints", ()))
    if merged.counters.get("http_requests", 0) < 500:
        merged.inconclusive.append("only %d HTTP requests were served over all daemon runs" % merged.counters.get("http_requests", 0))
    rule = ("the real daemon built with -race (5-6 fans of hwmon/file/cmd kind sharing linear, PID and nested function curves and hwmon/file/cmd sensors; 1-5 ms polling and tick "
            "rates; stall episodes; API and Prometheus endpoints enabled) under 8 HTTP client threads hitting list, item and metrics endpoints for %d s per run, %d runs, then SIGTERM; "
            "plus the race-built in-process harness driving the same object kinds at higher rates. Reports are read from the GORACE log files and identified by the unordered pair "
            "of innermost fan2go frames of the two accesses (line numbers stripped). Every pair not listed in known_findings.txt is a violation. distinct_nontrivial counts distinct "
            "race pairs observed plus distinct endpoint kinds served" % (duration, runs))
    return vcheck.finish(p, tier, "exploration", merged, rule,
                         ["the Go race detector only reports races on executions it observes (no false positives, many false negatives)",
                          "no monitor locks on the I/O path in race builds: the virtual driver is disabled (plain files, external plant thread)",
                          "gosensors stand-in"], t0)


PROPS["C20"] = c20


# ---------------------------------------------------------------------------------------------
# C03 process level: the real daemon, real SIGTERM / SIGINT (one or several), restore faults in
# the driver; final-state oracle on the device files after the process has exited.

def l2_basic_config(work, fans_yaml, extra="", more_sensors="", more_curves=""):
    return """dbPath: {work}/fan2go.db
runFanInitializationInParallel: true
maxRpmDiffForSettledFan: 20
fanResponseDelay: 0
tempSensorPollingRate: 10ms
tempRollingWindowSize: 3
rpmPollingRate: 10ms
rpmRollingWindowSize: 3
controllerAdjustmentTickRate: 10ms
{extra}
sensors:
  - id: cpu
    hwmon:
      platform: chipa
      index: 1
{more_sensors}curves:
  - id: lin
    linear:
      sensor: cpu
      min: 30
      max: 70
{more_curves}fans:
{fans}""".format(work=work, fans=fans_yaml, extra=extra, more_sensors=more_sensors, more_curves=more_curves)


def c03_l2_scenario(binary, work, idx, rng, merged):
    sd = os.path.join(work, "sc%d" % idx)
    os.makedirs(sd, exist_ok=True)
    orig_mode = rng.choice([0, 1, 2, 2, 5])
    orig_pwm = rng.choice([0, 77, 255])
    has_enable = rng.random() < 0.8
    tree = l2.Tree(os.path.join(sd, "hwmon"))
    chip = tree.chip("chipa", fans=(1, 2), temps=(1,), orig_mode=orig_mode, orig_pwm=orig_pwm, rpm=1200, enable=has_enable)
    l2.write(os.path.join(sd, "filefan"), "%d\n" % orig_pwm)
    nfans = rng.choice([1, 2, 3])
    # every 8th scenario ends regulation by a fatal control error instead of a signal: the first fan follows a PID curve
    # (which reads its sensor itself) and that sensor becomes unreadable; the daemon gives up and has to hand back every fan
    fatal = idx % 8 == 5
    # ... in every second one of those through a function curve (average / delta) over two PID curves whose sensors
    # become unreadable together
    fatal_fn = fatal and idx % 16 == 13
    if fatal:
        nfans = rng.choice([2, 3])
        l2.write(os.path.join(sd, "board"), "45000\n")
        l2.write(os.path.join(sd, "board2"), "47000\n")
    fans_yaml = ""
    devices = []
    for i in range(1, min(nfans, 2) + 1):
        fans_yaml += "  - id: f%d\n    hwmon:\n      platform: chipa\n      rpmChannel: %d\n    neverStop: %s\n    curve: %s\n    controlAlgorithm: direct\n" % (i, i, rng.choice(["true", "false"]), ("fn" if fatal_fn else "pidc") if fatal and i == 1 else "lin")
        devices.append(("hwmon", os.path.join(chip, "pwm%d" % i), os.path.join(chip, "pwm%d_enable" % i) if has_enable else None))
    if nfans == 3:
        fans_yaml += "  - id: ff\n    file:\n      path: %s/filefan\n    curve: lin\n    controlAlgorithm: direct\n" % sd
        devices.append(("file", os.path.join(sd, "filefan"), None))
    # every 8th scenario (and a fifth of the others) also has a cmd fan whose set tool takes 0.4 s (liquidctl-like); two
    # signals some tenths of a second apart: they arrive while the tool is handing the fan back
    slow_cmd = idx % 8 == 6 or (not fatal and rng.random() < 0.2)
    if slow_cmd:
        l2.write(os.path.join(sd, "cmdpwm"), "%d\n" % orig_pwm)
        l2.write(os.path.join(sd, "cmdset.sh"), "#!/bin/sh\necho \"$1\" >> %s/cmdwrites\nsleep 0.4\necho \"$1\" > %s/cmdpwm.tmp && mv %s/cmdpwm.tmp %s/cmdpwm\n" % (sd, sd, sd, sd), 0o755)
        l2.write(os.path.join(sd, "cmdget.sh"), "#!/bin/sh\ncat %s/cmdpwm\n" % sd, 0o755)
        fans_yaml += ("  - id: fc\n    cmd:\n      setPwm:\n        exec: %s/cmdset.sh\n        args: [\"%%pwm%%\"]\n      getPwm:\n        exec: %s/cmdget.sh\n"
                      "    curve: lin\n    controlAlgorithm: direct\n    pwmMap:\n      0: 0\n      128: 128\n      255: 255\n") % (sd, sd)
        devices.append(("cmd", os.path.join(sd, "cmdpwm"), None))
    mode_fault = rng.choice(["ok", "ok", "refused", "ignored", "stick1"]) if has_enable else "ok"
    pwm_fault = rng.choice(["ok", "ok", "ok", "refused255"])
    rules = []
    plants = []
    for kind, pwm, en in devices:
        if kind != "hwmon":
            continue
        if en and mode_fault != "ok":
            r = {"path": en, "op": "w", "ifNotVal": 1, "action": {"refused": "fail", "ignored": "ignore", "stick1": "stick"}[mode_fault], "errno": "EINVAL", "val": 1}
            rules.append(r)
        if pwm_fault == "refused255":
            rules.append({"path": pwm, "op": "w", "ifVal": 255, "action": "fail", "errno": "EIO"})
        rules.append({"path": pwm, "op": "w", "action": "quant", "val": rng.choice([4, 6])})
    nsig = rng.choice([1, 1, 2, 2, 3])
    sigs = [rng.choice([_signal.SIGTERM, _signal.SIGINT]) for _ in range(nsig)]
    gaps = [rng.choice([0.0, 0.005, 0.05, 1.0]) for _ in range(nsig - 1)]
    phase = rng.choice(["startup-wait", "analysis", "analysis-late", "first-second", "ticking", "ticking-late"])
    if idx % 8 == 6:
        # three signals: the later ones arrive while the tool is writing the original value resp. the full speed
        nsig, phase = 3, "ticking-late"
        sigs = [_signal.SIGTERM, rng.choice([_signal.SIGTERM, _signal.SIGINT]), rng.choice([_signal.SIGTERM, _signal.SIGINT])]
        gaps = [0.2, 0.4]
    more_sensors = more_curves = ""
    if fatal:
        phase = "fatal-sensor-error"
        more_sensors = "  - id: board\n    file:\n      path: %s/board\n" % sd
        more_curves = "  - id: pidc\n    pid:\n      sensor: board\n      setPoint: 50\n      p: -0.05\n      i: -0.005\n      d: -0.005\n"
        if fatal_fn:
            phase = "fatal-sensor-error-under-a-function-curve"
            more_sensors += "  - id: board2\n    file:\n      path: %s/board2\n" % sd
            more_curves += "  - id: pidc2\n    pid:\n      sensor: board2\n      setPoint: 55\n      p: -0.05\n      i: -0.005\n      d: -0.005\n"
            more_curves += "  - id: fn\n    function:\n      type: %s\n      curves:\n        - pidc\n        - pidc2\n" % ("average" if idx % 32 == 13 else "delta")
    case = {"orig_mode": orig_mode, "orig_pwm": orig_pwm, "has_enable": has_enable, "fans": nfans, "mode_fault": mode_fault, "pwm_fault": pwm_fault,
            "signals": [int(s) for s in sigs], "gaps_s": gaps, "first_signal_phase": phase}
    cls = "mode%d:enable=%s:modeFault=%s:pwmFault=%s:signals=%d:phase=%s" % (orig_mode, has_enable, mode_fault, pwm_fault, nsig, phase)
    desktop = rng.choice(l2.DESKTOPS)
    case["desktop_session"] = desktop
    # the REST API and / or the Prometheus endpoint are switched on in half of the scenarios (their servers are part of
    # what is started and stopped with the daemon)
    web = ["none", "none", "api", "statistics", "both", "none", "statistics", "api"][idx % 8] if idx < 16 else rng.choice(["none", "api", "statistics", "both"])
    extra = ""
    if web in ("api", "both"):
        extra += "api:\n  enabled: true\n  host: 127.0.0.1\n  port: %d\n" % l2.free_port()
    if web in ("statistics", "both"):
        extra += "statistics:\n  enabled: true\n  port: %d\n" % l2.free_port()
    case["web_endpoints"] = web
    d = l2.Daemon(binary, sd, l2_basic_config(sd, fans_yaml, extra=extra, more_sensors=more_sensors, more_curves=more_curves), tree.root, driver={"rules": rules, "plants": plants}, timescale=10, desktop=desktop)
    try:
        marker, delay = {
            "fatal-sensor-error": (r"Starting controller loop", 0.4),
            "fatal-sensor-error-under-a-function-curve": (r"Starting controller loop", 0.4),
            "startup-wait": (r"Gathering sensor data", 0.05),
            "analysis": (r"starting initialization sequence|Computing pwm map", 0.05),
            "analysis-late": (r"Measuring RPM curve|Computing pwm map", 0.3),
            "first-second": (r"Starting controller loop", 0.02),
            "ticking": (r"Starting controller loop", 0.4),
            "ticking-late": (r"Starting controller loop", 1.5),
        }[phase]
        if not d.wait_for(marker, 60):
            if d.p.poll() is None:
                merged.inconclusive.append("C03 L2 scenario %d: marker %r never appeared: %s" % (idx, marker, d.output()[-600:].replace("\n", " | ")))
                return
            # the daemon gave up on its own (an injected write fault hit the initial analysis = fatal error): no signal is
            # needed, the final-state oracle applies all the same
            cls += ":daemon-stopped-on-its-own"
            merged.counters["l2_daemon_stopped_on_its_own"] = merged.counters.get("l2_daemon_stopped_on_its_own", 0) + 1
        elif fatal:
            time.sleep(delay)
            l2.write_atomic(os.path.join(sd, "board"), "4x5\n")
            if fatal_fn:
                l2.write_atomic(os.path.join(sd, "board2"), "4x5\n")
            if d.wait(30) is None:
                # (an unreadable sensor of a PID curve ends the affected fan's controller and with it the daemon; should
                # that ever change, the signals end the run)
                cls += ":kept-running-after-the-error"
                for s in sigs:
                    d.signal(s)
        else:
            time.sleep(delay)
            for i, s in enumerate(sigs):
                if i > 0:
                    time.sleep(gaps[i - 1])
                d.signal(s)
        rc = d.wait(90)
        out = d.output()
        merged.evaluations += 1
        replay = {"case": case, "output_tail": out[-3000:]}
        if rc is None:
            blk = d.locked_for_minutes()
            if blk:
                state = "; ".join("%s fan: mode %s pwm %s" % (kind, l2.read_int(en, -1) if en else None, l2.read_int(pwm, -1)) for kind, pwm, en in devices)
                merged.add_violation("daemon-deadlocked-instead-of-handing-fans-back:" + cls.rsplit(":signals", 1)[0],
                                     "still running 90 s after it was told to stop / gave up (%s); a goroutine has been waiting for a lock for minutes:\n%s\n%s" % (state, blk, cls), replay)
            else:
                merged.inconclusive.append("C03 L2 scenario %d: daemon still running 90 s after the first signal (%s)" % (idx, cls))
            return
        pm = l2.has_panic(out)
        if pm:
            what = "second-signal-panics" if "send on closed channel" in out else "daemon-panicked-during-shutdown"
            merged.add_violation("%s:signals=%d" % (what, nsig), "%s\n%s" % (cls, out[out.find(pm):][:2000]), replay)
            return
        if rc not in (0, 1):
            merged.add_violation("daemon-exit-status-%s" % rc, "%s: exit %s\n%s" % (cls, rc, out[-1500:]), replay)
            return
        events = d.events()
        for kind, pwm, en in devices:
            # a fan fan2go never wrote to (its controller ended before its first write) was never regulated: nothing to hand back
            touched = any(e["path"] in (pwm, en) and e["op"] == "w" for e in events) or l2.read_int(pwm, -1) != orig_pwm
            if kind == "cmd":
                touched = os.path.exists(os.path.join(sd, "cmdwrites"))
            final_pwm = l2.read_int(pwm, -1)
            final_mode = l2.read_int(en, -1) if en else None
            ok = (en is not None and final_mode == orig_mode and orig_mode != 1) or final_pwm == 255
            if not ok:
                wr = [e for e in events if e["path"] == pwm and e["op"] == "w"]
                if wr and wr[-1]["val"] == 255 and (wr[-1].get("err") or wr[-1].get("action") == "ignore"):
                    ok = True  # nothing more fan2go could do
            if not ok and touched:
                merged.add_violation("fan-left-in-bad-state:%s:%s" % (kind, cls.rsplit(":signals", 1)[0]),
                                     "%s fan: mode %s (original %s), pwm %s after the daemon exited with %s; %s" % (kind, final_mode, orig_mode, final_pwm, rc, cls), replay)
        landed = "before-regulation"
        pos_sig = out.find("Received SIGTERM")
        pos_loop = out.find("Starting controller loop")
        if pos_loop >= 0 and pos_sig > pos_loop:
            landed = "during-regulation"
        merged.nontrivial.add("l2|%s|%s|%s|%s|%d|%s" % (landed, orig_mode, mode_fault, pwm_fault, nsig, has_enable))
        merged.sets.setdefault("signal_landed", set()).add(landed + "/" + phase)
        if not any(isinstance(s, dict) and s.get("kind") == "process-level" for s in merged.samples):
            merged.samples.append({"kind": "process-level", "case": case, "exit_status": rc, "device_events": len(events)})
    finally:
        d.close()


def c03(p, tier, work, t0, replay):
    src, vh = build_vh(work)
    q = tier == "quick"
    merged = vcheck.run_vh_batches(vh, p, tier, 16 if q else 32, work, 600 if q else 3000)
    binary = vbuild.build(work, src, ".", os.path.join(work, "fan2go"))
    rng = random.Random(vcheck.seed() * 7919 + 3)
    n = 32 if q else 600
    import concurrent.futures
    lock = threading.Lock()
    cases = [(i, random.Random(rng.random())) for i in range(n)]

    def one(args):
        i, r = args
        local = vcheck.Merged(p)
        c03_l2_scenario(binary, work, i, r, local)
        with lock:
            merged.evaluations += local.evaluations
            merged.nontrivial |= local.nontrivial
            merged.inconclusive += local.inconclusive
            for k, v in local.sets.items():
                merged.sets.setdefault(k, set()).update(v)
            for s in local.samples:
                if not any(isinstance(x, dict) and x.get("kind") == "process-level" for x in merged.samples):
                    merged.samples.append(s)
            for sig, v in local.violations.items():
                merged.add_violation(sig, v["detail"], v.get("replay"), v["count"])
    with concurrent.futures.ThreadPoolExecutor(max_workers=8) as ex:
        list(ex.map(one, cases))
    rule = ("two layers. In-process: controller.Run on hwmon/file devices in the virtual driver; regulation stopped when the n-th device I/O operation is issued (n random in 1..400 "
            "resp. 1..1500 with initial analysis, densely in 1..12), after a delay falling into the start-up wait / first-second delay / ticking, or never (fan stalls at maximum = fatal "
            "control error) x original mode {0,1,2,5} x original PWM {0,77,255} x with/without control mode x restore faults {mode write refused / silently ignored / pinned to 1, PWM "
            "write refused}. Process level: the real daemon (1-3 fans, hwmon and file) receives 1..3 real SIGTERM/SIGINT, the first one in the start-up wait, the analysis, the "
            "first-second delay or while ticking, the others 0 / 5 / 50 ms / 1 s later, with the same restore faults in the driver; every 8th scenario ends by a fatal control error instead "
            "(unreadable sensor of a PID curve, or of both PID members of an average / delta function), another 8th has a slow cmd fan and three signals; exit status, absence of a Go panic trace and the "
            "final-state predicate on the device files are checked. non-trivial = stop point reached / signal delivered; distinct by (class, stop point) resp. (phase, mode, faults, #signals)")
    return vcheck.finish(p, tier, "fault_enumeration", merged, rule,
                         TRUST_L1 + ["fixed waits of the controller divided by 50 in-process and by 10 for the daemon (tick rates 3-10 ms)", "SIGKILL / power loss are outside the statement"], t0)


PROPS["C03"] = c03


# ---------------------------------------------------------------------------------------------
# process-level layers for C17 (detect / sensor CLI / daemon start-up binding) and C15 (restarts of the
# real daemon, `fan reset`, `fan init`)

def merge_local(merged, local, lock, sample_kind):
    with lock:
        merged.evaluations += local.evaluations
        merged.nontrivial |= local.nontrivial
        merged.inconclusive += local.inconclusive
        for k, v in local.counters.items():
            merged.counters[k] = merged.counters.get(k, 0) + v
        for k, v in local.sets.items():
            merged.sets.setdefault(k, set()).update(v)
        for s in local.samples:
            if not any(isinstance(x, dict) and x.get("kind") == sample_kind for x in merged.samples):
                merged.samples.append(s)
        for sig, v in local.violations.items():
            merged.add_violation(sig, v["detail"], v.get("replay"), v["count"])


def run_l2(fn, n, merged, kind, seed_mul, workers=8):
    import concurrent.futures
    lock = threading.Lock()
    rng = random.Random(vcheck.seed() * seed_mul + 11)
    seeds = [rng.random() for _ in range(n)]

    def one(i):
        local = vcheck.Merged(merged.prop)
        try:
            fn(i, random.Random(seeds[i]), local)
        except Exception as e:  # orchestrator trouble is never a verdict
            import traceback
            local.inconclusive.append("process-level scenario %d failed in the orchestrator: %s" % (i, traceback.format_exc()[-600:].replace("\n", " | ")))
        merge_local(merged, local, lock, kind)
    with concurrent.futures.ThreadPoolExecutor(max_workers=workers) as ex:
        list(ex.map(one, range(n)))


C17_NAMES = ["nct6798", "it8620", "coretemp", "acpitz", "amdgpu", "k10temp", "corsaircpro", "nvme"]


def run_cli(binary, work, cfg_path, tree_root, args, timeout=60, driver=None):
    env = dict(os.environ)
    env.pop("DISPLAY", None)
    env["FAN2GO_VERIF_HWMON_ROOT"] = tree_root
    env["FAN2GO_VERIF_TIMESCALE"] = "10"
    env["HOME"] = work
    if driver:
        env["FAN2GO_VERIF_DRIVER"] = driver
    try:
        p = subprocess.run([binary, "-c", cfg_path, "--no-style"] + args, stdout=subprocess.PIPE, stderr=subprocess.STDOUT, env=env, cwd=work, timeout=timeout, text=True, errors="replace")
        return p.returncode, p.stdout
    except subprocess.TimeoutExpired as e:
        return None, (e.stdout or "")


def c17_l2_scenario(binary, work, idx, rng, merged):
    sd = os.path.join(work, "c17-%d" % idx)
    root = os.path.join(sd, "hwmon")
    os.makedirs(root, exist_ok=True)
    n = rng.randint(1, 4)
    names = rng.sample(C17_NAMES, n)
    chips = []
    uniq = [5000]

    def u():
        uniq[0] += 1
        return uniq[0]
    contents = {}
    for i in range(n):
        d = os.path.join(root, "hwmon%d" % i)
        os.makedirs(d)
        l2.write(os.path.join(d, "name"), names[i] + "\n")
        fans = [c for c in range(1, 7) if rng.random() < 0.5]
        temps = [c for c in range(1, 7) if rng.random() < 0.5] or [1]
        for c in range(1, 7):
            l2.write(os.path.join(d, "pwm%d" % c), "%d\n" % rng.randint(60, 200))
            l2.write(os.path.join(d, "pwm%d_enable" % c), "2\n")
        for c in fans:
            l2.write(os.path.join(d, "fan%d_input" % c), "%d\n" % u())
        for c in temps:
            v = u() * 10
            contents[os.path.join(d, "temp%d_input" % c)] = v
            l2.write(os.path.join(d, "temp%d_input" % c), "%d\n" % v)
        chips.append({"dir": d, "name": names[i], "fans": fans, "temps": temps})
    order = list(range(n))
    rng.shuffle(order)
    l2.write(os.path.join(root, "ORDER"), "\n".join("hwmon%d" % i for i in order) + "\n")
    tree_desc = [{"name": c["name"], "fans": c["fans"], "temps": c["temps"]} for c in chips]
    # --- selectors
    chip_s = rng.randrange(n)
    s_index = rng.randint(1, 7)
    chip_f = rng.randrange(n)
    by_channel = rng.random() < 0.5
    f_sel = rng.randint(1, 7)
    if rng.random() < 0.6 and chips[chip_f]["fans"]:
        # mostly selectors of existing devices
        f_sel = rng.choice(chips[chip_f]["fans"]) if by_channel else rng.randint(1, len(chips[chip_f]["fans"]))
    if rng.random() < 0.6:
        s_index = rng.randint(1, len(chips[chip_s]["temps"]))
    pwm_ch = rng.choice([0, 0, rng.randint(1, 6)])
    unknown = rng.random() < 0.12
    fan_platform = "nosuchchip" if unknown else chips[chip_f]["name"]
    sens_file = os.path.join(sd, "filesensor")
    l2.write(sens_file, "44000\n")
    cfg = """dbPath: {sd}/fan2go.db
tempSensorPollingRate: 10ms
rpmPollingRate: 10ms
controllerAdjustmentTickRate: 10ms
fanResponseDelay: 0
sensors:
  - id: hw_sensor
    hwmon:
      platform: {sp}
      index: {si}
  - id: plain
    file:
      path: {sf}
curves:
  - id: lin
    linear:
      sensor: plain
      min: 30
      max: 70
  - id: lin2
    linear:
      sensor: hw_sensor
      min: 30
      max: 70
fans:
  - id: hw_fan
    hwmon:
      platform: {fp}
      {sel}: {fs}{pc}
    curve: lin
    controlAlgorithm: direct
""".format(sd=sd, sp=chips[chip_s]["name"], si=s_index, sf=sens_file, fp=fan_platform, sel="rpmChannel" if by_channel else "index", fs=f_sel,
           pc=("\n      pwmChannel: %d" % pwm_ch) if pwm_ch else "")
    cfg_path = os.path.join(sd, "fan2go.yaml")
    l2.write(cfg_path, cfg)
    case = {"tree": tree_desc, "order": order, "sensor": {"chip": chips[chip_s]["name"], "index": s_index},
            "fan": {"platform": fan_platform, "rpmChannel" if by_channel else "index": f_sel, "pwmChannel": pwm_ch}}
    # reference
    temps = sorted(chips[chip_s]["temps"])
    want_temp = os.path.join(chips[chip_s]["dir"], "temp%d_input" % temps[s_index - 1]) if s_index <= len(temps) else None
    fl = sorted(chips[chip_f]["fans"])
    ch = None
    if not unknown:
        if by_channel:
            ch = f_sel if f_sel in fl else None
        elif f_sel <= len(fl):
            ch = fl[f_sel - 1]
    want_rpm = os.path.join(chips[chip_f]["dir"], "fan%d_input" % ch) if ch else None
    want_pwm = os.path.join(chips[chip_f]["dir"], "pwm%d" % (pwm_ch or ch)) if ch else None
    # --- detect
    rc, out = run_cli(binary, sd, cfg_path, root, ["detect"])
    merged.evaluations += 1
    if rc is None or l2.has_panic(out or ""):
        merged.add_violation("detect-crashes", "%s\n%s" % (json.dumps(case), (out or "")[-1500:]), case)
    else:
        for c in chips:
            if c["name"] not in out:
                merged.add_violation("detect-misses-a-chip", "%s missing in\n%s" % (c["name"], out[-1500:]), case)
    # --- sensor CLI: the printed value identifies the file that was read
    rc, out = run_cli(binary, sd, cfg_path, root, ["sensor", "--id", "hw_sensor"])
    merged.evaluations += 1
    if rc is None or l2.has_panic(out or ""):
        merged.add_violation("sensor-cli:panic:" + ("missing-index" if want_temp is None else "existing"), "%s\n%s" % (json.dumps(case), (out or "")[-1500:]), case)
    elif want_temp is not None:
        m = re.search(r"(\d+)\s*$", out.strip())
        if rc != 0 or not m or int(m.group(1)) != contents[want_temp]:
            merged.add_violation("sensor-cli:bound-to-wrong-device", "%s: printed %r (exit %s), the named input %s holds %d" % (json.dumps(case), out.strip()[-80:], rc, want_temp, contents[want_temp]), case)
        else:
            merged.nontrivial.add("l2-sensor|%d|%d|%s" % (n, s_index, order))
    else:
        if rc == 0 and re.search(r"^\d+$", out.strip()):
            merged.add_violation("sensor-cli:non-existing-index-silently-bound", "%s: printed %s" % (json.dumps(case), out.strip()), case)
        merged.counters["l2_sensor_cli_missing_index_rejected"] = merged.counters.get("l2_sensor_cli_missing_index_rejected", 0) + 1
    # --- daemon start-up: which device files does it touch?
    d = l2.Daemon(binary, sd, cfg, root, driver={"rules": [], "plants": []}, timescale=10)
    try:
        started = d.wait_for(r"Gathering sensor data for|Error initializing|rror", 60)
        time.sleep(0.3)
        if d.p.poll() is None:
            d.signal(_signal.SIGTERM)
        rc = d.wait(90)
        out = d.output()
        merged.evaluations += 1
        events = d.events()
        sensor_ok = want_temp is not None
        # a start-up that is refused with fan2go's own fatal exit (message + deliberate panic on the main goroutine) is a
        # clean failure when devices are missing; with existing devices any panic is a crash
        pm = l2.has_panic(out, allow_startup_fatal=not (sensor_ok and ch))
        if pm:
            cls = "existing-devices" if (sensor_ok and ch) else ("missing-sensor-index" if not sensor_ok else ("unknown-platform" if unknown else "missing-fan"))
            merged.add_violation("daemon-start-up-panics:" + cls, "%s\n%s" % (json.dumps(case), out[out.find(pm):][:1500]), case)
            return
        if rc is None:
            merged.inconclusive.append("C17 L2 scenario %d: daemon did not exit" % idx)
            return
        dev_events = [e for e in events if "/hwmon" in e["path"]]
        if sensor_ok and ch:
            touched = set(e["path"] for e in dev_events)
            allowed = {want_rpm, want_pwm, want_pwm + "_enable", want_temp}
            wrong = sorted(p for p in touched if p not in allowed)
            if wrong:
                merged.add_violation("daemon-touches-a-device-the-user-did-not-name", "%s: touched %s, named %s" % (json.dumps(case), wrong, sorted(allowed)), case)
            elif want_pwm not in touched:
                merged.add_violation("daemon-does-not-use-the-named-device", "%s: touched %s" % (json.dumps(case), sorted(touched)), case)
            else:
                merged.nontrivial.add("l2-daemon|%d|%s|%d|%d|%s" % (n, by_channel, f_sel, pwm_ch, order))
        else:
            which = "hw_sensor" if not sensor_ok else "hw_fan"
            writes = [e for e in dev_events if e["op"] == "w"]
            if rc == 0 and "rror" not in out:
                merged.add_violation("start-up-with-non-existing-device-succeeds:" + which, "%s\n%s" % (json.dumps(case), out[-800:]), case)
            elif which not in out:
                merged.add_violation("start-up-error-does-not-name-the-entry:" + which, "%s\n%s" % (json.dumps(case), out[-800:]), case)
            if writes:
                merged.add_violation("device-written-although-start-up-failed", "%s: %s" % (json.dumps(case), writes[:5]), case)
            merged.counters["l2_startups_with_missing_device_rejected"] = merged.counters.get("l2_startups_with_missing_device_rejected", 0) + 1
        if not merged.samples:
            merged.samples.append({"kind": "process-level", "case": case, "daemon_exit": rc, "device_events": len(dev_events)})
    finally:
        d.close()


def c17(p, tier, work, t0, replay):
    src, vh = build_vh(work)
    q = tier == "quick"
    merged = vcheck.run_vh_batches(vh, p, tier, 8 if q else 16, work, 600 if q else 3000)
    binary = vbuild.build(work, src, ".", os.path.join(work, "fan2go"))
    run_l2(lambda i, r, m: c17_l2_scenario(binary, work, i, r, m), 24 if q else 400, merged, "process-level", 31)
    rule = ("two layers. In-process: seeded random fake hwmon trees (1..4 chips with distinct names, fan inputs on random channel subsets of 1..6, temperature inputs on random indices "
            "incl. features without an input file, pwm controls on all channels, random enumeration ORDER) read by the real hwmon.GetChips() through the gosensors stand-in; per tree 12 fan "
            "selectors through UpdateFanConfigFromHwMonControllers and 6 sensor selectors through InitializeObjects, bound paths compared with a reference resolution. Process level: "
            "per generated tree `fan2go detect`, `fan2go sensor --id` (every input file holds a unique number, so the printed value identifies the file) and a daemon start-up whose device "
            "event log must touch exactly the named files - or fail naming the entry, without panic and without any device write. non-trivial = selector of an existing device; distinct "
            "by (selector, tree shape, order)")
    return vcheck.finish(p, tier, "exploration", merged, rule,
                         TRUST_L1 + ["the stand-in numbers features like libsensors (by type, then number; names fanN / tempN)", "platform patterns match exactly one chip"], t0)


PROPS["C17"] = c17


# ---------------------------------------------------------------------------------------------
# C18 process level: the command-line entry points with a configuration file that is (not) root-controlled

C18_RULE = ("exhaustive grid: owner {root, 1000} x group {root, 1000} x all 512 permission modes x {direct path, symlink owned by a non-root user} through "
            "util.SafeCmdExecution (4096 files), a reduced mode grid through CmdSensor and the three CmdFan commands, ownership/mode flips between consecutive "
            "executions in both directions, overlapping calls, executables being replaced, configured exec paths, and the configuration-file rule over uid x gid x modes x "
            "{no cmd entry, cmd sensor, cmd fan}; each file is a script appending to a marker file, so execution is observed from outside; every case is distinct and "
            "non-trivial (it decides permit/refuse). Process level: the real binary's sub-commands `sensor --id`, `fan --id speed|rpm`, `config validate` and the daemon "
            "itself with a configuration file that declares a command sensor and a command fan and is owned by root 0644 (accepted) or by uid 1000 / mode 0666 / "
            "gid 1000 mode 0664 (refused: non-zero exit, no command executed)")


def c18_cli_scenario(binary, work, idx, rng, merged):
    sd = os.path.join(work, "c18cli-%d" % idx)
    os.makedirs(sd, exist_ok=True)
    tree = l2.Tree(os.path.join(sd, "hwmon"))
    tree.chip("chipa", fans=(1,), temps=(1,), orig_mode=2, orig_pwm=100, rpm=1200)
    marker = os.path.join(sd, "marker")
    l2.write(os.path.join(sd, "tool.sh"), "#!/bin/sh\necho ran >> %s\necho 42\n" % marker, 0o755)
    l2.write(os.path.join(sd, "pwmstate"), "100\n")
    cfg = """dbPath: {sd}/fan2go.db
sensors:
  - id: s
    cmd:
      exec: {sd}/tool.sh
curves:
  - id: c
    linear:
      sensor: s
      min: 40
      max: 80
fans:
  - id: f
    curve: c
    cmd:
      setPwm:
        exec: {sd}/tool.sh
        args: ["%pwm%"]
      getPwm:
        exec: {sd}/tool.sh
      getRpm:
        exec: {sd}/tool.sh
""".format(sd=sd)
    cfgp = os.path.join(sd, "fan2go.yaml")
    l2.write(cfgp, cfg)
    owner = [("root:root 0644", 0, 0, 0o644, True), ("uid 1000 0644", 1000, 0, 0o644, False), ("root:root 0666", 0, 0, 0o666, False),
             ("root:gid 1000 0664", 0, 1000, 0o664, False), ("root:gid 1000 0644", 0, 1000, 0o644, True)][idx % 5]
    name, uid, gid, mode, trusted = owner
    os.chown(cfgp, uid, gid)
    os.chmod(cfgp, mode)
    for args in (["sensor", "--id", "s"], ["fan", "--id", "f", "speed"], ["fan", "--id", "f", "rpm"], ["config", "validate"]):
        try:
            os.remove(marker)
        except OSError:
            pass
        rc, out = run_cli(binary, sd, cfgp, tree.root, args, timeout=60)
        merged.evaluations += 1
        ran = os.path.exists(marker)
        cls = "%s:%s" % (" ".join(a for a in args if not a.startswith("-") and a not in ("s", "f")), name.replace(" ", "-"))
        case = {"configuration_file": name, "command": args, "exit": rc, "tool_ran": ran}
        if rc is None or l2.has_panic(out or "", allow_startup_fatal=True):
            if rc is None:
                merged.inconclusive.append("C18 CLI scenario %d: `%s` did not return" % (idx, " ".join(args)))
            else:
                merged.add_violation("cli:panic:" + cls, (out or "")[-1200:], case)
            return
        if not trusted and ran:
            merged.add_violation("cli:command-of-an-untrusted-configuration-file-executed:" + cls, "%s; output: %s" % (json.dumps(case), (out or "")[-600:].replace("\n", " | ")), case)
            return
        if not trusted and rc == 0 and args[0] != "config":
            merged.add_violation("cli:untrusted-configuration-file-accepted:" + cls, "%s; output: %s" % (json.dumps(case), (out or "")[-600:].replace("\n", " | ")), case)
            return
        if trusted and args[0] == "sensor" and not ran:
            merged.add_violation("cli:permitted-command-not-run:" + cls, "%s; output: %s" % (json.dumps(case), (out or "")[-600:].replace("\n", " | ")), case)
            return
        merged.nontrivial.add("cli|" + cls)
    if not any(isinstance(x, dict) and x.get("kind") == "process-level" for x in merged.samples):
        merged.samples.append({"kind": "process-level", "configuration_file": name, "trusted": trusted})


def c18(p, tier, work, t0, replay):
    src, vh = build_vh(work)
    q = tier == "quick"
    merged = vcheck.run_vh_batches(vh, p, tier, 8, work, 600 if q else 3000)
    binary = vbuild.build(work, src, ".", os.path.join(work, "fan2go"))
    run_l2(lambda i, r, m: c18_cli_scenario(binary, work, i, r, m), 5 if q else 25, merged, "process-level", 97, workers=5)
    return vcheck.finish(p, tier, "exploration", merged, C18_RULE,
                         ["runs as root (needed to construct ownership cases)", "check-to-exec TOCTOU window is not claimed by the statement"], t0, exhaustive=True)


PROPS["C18"] = c18


def c15_l2_scenario(binary, work, idx, rng, merged):
    sd = os.path.join(work, "c15-%d" % idx)
    os.makedirs(sd, exist_ok=True)
    tree = l2.Tree(os.path.join(sd, "hwmon"))
    chip = tree.chip("chipa", fans=(1,), temps=(1,), orig_mode=2, orig_pwm=100, rpm=1200)
    l2.write(os.path.join(sd, "filefan"), "90\n")
    pwm_map = rng.random() < 0.3
    min_max = rng.random() < 0.3
    if idx in (9, 10):
        pwm_map = False  # (these two are about the measured map of the file fan)
    extra = ""
    if pwm_map:
        extra += "    pwmMap:\n      0: 0\n      64: 128\n      192: 255\n"
    if min_max:
        extra += "    minPwm: 30\n    maxPwm: 220\n"
    # the ids and the order of the entries are the user's choice (not sorted, not "first the hwmon fan")
    ids = dict(zip(("f1", "ff"), rng.choice([("f1", "ff"), ("rear", "cpu"), ("zz_top", "a1"), ("b", "a"), ("Fan2", "fan10")])))
    entries = ["  - id: %s\n    hwmon:\n      platform: chipa\n      rpmChannel: 1\n    neverStop: false\n    curve: lin\n    controlAlgorithm: direct\n" % ids["f1"] + extra,
               "  - id: %s\n    file:\n      path: %s/filefan\n    curve: lin\n    controlAlgorithm: direct\n" % (ids["ff"], sd) + extra]
    if idx in (4, 5):
        # two ids that differ only in case (fan2go accepts them); the fan addressed later on is listed after the other one
        req = "f1" if idx == 4 else "ff"
        oth = "ff" if idx == 4 else "f1"
        ids = {req: "cpu", oth: "CPU"}
        entries = ["  - id: %s\n    hwmon:\n      platform: chipa\n      rpmChannel: 1\n    neverStop: false\n    curve: lin\n    controlAlgorithm: direct\n" % ids["f1"] + extra,
                   "  - id: %s\n    file:\n      path: %s/filefan\n    curve: lin\n    controlAlgorithm: direct\n" % (ids["ff"], sd) + extra]
        if req == "f1":
            entries.reverse()
    elif idx in (6, 7):
        # the fan that is reset (twice in a row) has the id that sorts first
        req = "f1" if idx == 6 else "ff"
        oth = "ff" if idx == 6 else "f1"
        ids = {req: "a1", oth: "zz_top"}
        entries = ["  - id: %s\n    hwmon:\n      platform: chipa\n      rpmChannel: 1\n    neverStop: false\n    curve: lin\n    controlAlgorithm: direct\n" % ids["f1"] + extra,
                   "  - id: %s\n    file:\n      path: %s/filefan\n    curve: lin\n    controlAlgorithm: direct\n" % (ids["ff"], sd) + extra]
    elif rng.random() < 0.5:
        entries.reverse()
    if idx < 4 and re.findall(r"- id: (\S+)", "".join(entries)) == sorted(ids.values()):
        entries.reverse()  # the first four scenarios: entries not in the order of their ids
    fans_yaml = "".join(entries)
    cfg = l2_basic_config(sd, fans_yaml)
    # a third of the scenarios: the database path is relative (to the directory fan2go is started from, the same for the
    # daemon and the CLI) and the configuration file lives in another directory
    rel_db = idx % 3 == 1
    cfg_dir = None
    if rel_db:
        cfg = cfg.replace("dbPath: %s/fan2go.db" % sd, "dbPath: state/fan2go.db")
        cfg_dir = os.path.join(sd, "conf")
        os.makedirs(cfg_dir, exist_ok=True)
        os.makedirs(os.path.join(sd, "state"), exist_ok=True)
    pwm1 = os.path.join(chip, "pwm1")
    rpm1 = os.path.join(chip, "fan1_input")
    ff = os.path.join(sd, "filefan")
    driver = {"rules": [{"path": pwm1, "op": "w", "action": "quant", "val": 5}], "plants": []}
    ops = ["start"] + [rng.choice(["start", "start", "reset", "init"]) for _ in range(rng.randint(1, 3))] + ["start"]
    forced = None
    if idx < 6:
        # one `fan reset` / `fan init` of each fan between two starts
        ops, forced = ["start", ["reset", "reset", "init", "init", "reset", "reset"][idx], "start"], ["f1", "ff", "f1", "ff", "f1", "ff"][idx]
    if idx in (6, 7):
        ops, forced = ["start", "reset", "reset", "start"], ["f1", "ff"][idx - 6]
    if idx == 8:
        ops, forced = ["start+reset-while-running", "start"], "f1"
    elif idx in (9, 10):
        # the file fan (no tachometer: its characterisation is the measured PWM map alone) is characterised with `fan init`
        # before the daemon has ever run, then discarded with `fan reset` resp. characterised once more
        ops, forced = ["init", ["reset", "init"][idx - 9], "start"], "ff"
    elif idx > 8 and rng.random() < 0.25:
        ops = ops[:-1] + ["start+reset-while-running", "start"]
    if rel_db and idx not in (9, 10) and (idx == 1 or rng.random() < 0.5):
        # the user characterises a fan with `fan init` before the daemon runs for the first time
        ops = ["init"] + ops[(2 if idx == 1 else 0):]
    case = {"relative_dbPath_and_configuration_elsewhere": rel_db, "pwmMap": pwm_map, "minMax": min_max, "ops": ops, "fan_ids_in_configuration_order": re.findall(r"- id: (\S+)", fans_yaml)}
    cls = "pwmMap=%s:minMax=%s" % (pwm_map, min_max)
    analysed = {"f1": False, "ff": False}
    discarded = {"f1": False, "ff": False}  # `fan reset` was the last thing that happened to the fan's stored data
    trace = []
    for k, op in enumerate(ops):
        if op in ("reset", "init"):
            which = forced or rng.choice(["f1", "ff"])
            dj = os.path.join(sd, "cli%d.driver.json" % k)
            l2.write(dj, json.dumps(dict(driver, log=os.path.join(sd, "cli%d.events" % k))))
            cfgp = os.path.join(cfg_dir or sd, "cli.yaml")
            l2.write(cfgp, cfg)
            rc, out = run_cli(binary, sd, cfgp, tree.root, ["fan", "--id", ids[which], op], timeout=120, driver=dj)
            if rc is None or l2.has_panic(out or ""):
                merged.add_violation("cli-%s-crashes" % op, "%s\n%s" % (json.dumps(case), (out or "")[-1200:]), case)
                return
            analysed[which] = (op == "init")
            discarded[which] = (op == "reset")
            trace.append({"op": "%s %s" % (op, which), "exit": rc})
            if op == "init" and which == "ff" and not pwm_map and rc == 0:
                # `fan init` is the request to characterise the fan (again): the file fan is swept whatever is stored
                written = set()
                try:
                    with open(os.path.join(sd, "cli%d.events" % k)) as f:
                        for line in f:
                            try:
                                e = json.loads(line)
                            except ValueError:
                                continue
                            if e.get("path") == ff and e.get("op") == "w":
                                written.add(e.get("val"))
                except OSError:
                    pass
                trace[-1]["distinct_pwm_values_written"] = len(written)
                merged.counters["l2_fan_init_sweeps_of_the_file_fan"] = merged.counters.get("l2_fan_init_sweeps_of_the_file_fan", 0) + (1 if len(written) > 7 else 0)
                if len(written) <= 7:
                    merged.add_violation("fan-init-does-not-characterise-again:ff:%s" % cls, "`fan init` no. %d wrote %d distinct PWM values (a sweep writes 256); trace %s" % (k, len(written), json.dumps(trace)), {"case": case, "trace": trace})
                    return
            continue
        d = l2.Daemon(binary, sd, cfg, tree.root, driver=driver, timescale=10, name="start%d" % k, cfg_dir=cfg_dir)
        live_reset = None
        try:
            if not d.wait_for(r"(?s)(Starting controller loop.*){2}", 120):
                merged.inconclusive.append("C15 L2 scenario %d: regulation did not begin: %s" % (idx, d.output()[-500:].replace("\n", " | ")))
                return
            time.sleep(0.4)
            if op == "start+reset-while-running":
                # the user discards a fan's data while the daemon is regulating, and stops the daemon afterwards
                live_reset = forced or rng.choice(["f1", "ff"])
                cfgp = os.path.join(cfg_dir or sd, "cli.yaml")
                l2.write(cfgp, cfg)
                rc, out = run_cli(binary, sd, cfgp, tree.root, ["fan", "--id", ids[live_reset], "reset"], timeout=120)
                if rc is None or l2.has_panic(out or ""):
                    merged.add_violation("cli-reset-crashes", "%s\n%s" % (json.dumps(case), (out or "")[-1200:]), case)
                    return
                trace.append({"op": "reset %s while the daemon runs" % live_reset, "exit": rc})
                time.sleep(0.2)
            d.signal(_signal.SIGTERM)
            if d.wait(90) is None:
                merged.inconclusive.append("C15 L2 scenario %d: daemon did not exit" % idx)
                return
            out = d.output()
            if l2.has_panic(out):
                merged.add_violation("daemon-panics-on-restart", "%s\n%s" % (json.dumps(case), out[-1500:]), case)
                return
            events = d.events()
            merged.evaluations += 1
            for fan, pwmp, rpmp in (("f1", pwm1, rpm1), ("ff", ff, None)):
                distinct = set(e["val"] for e in events if e["path"] == pwmp and e["op"] == "w")
                run_len = best = 0
                for e in events:
                    if rpmp and e["path"] == rpmp and e["op"] == "r":
                        run_len += 1
                        best = max(best, run_len)
                    elif e["path"] in (pwmp, pwmp + "_enable"):
                        run_len = 0
                obs = {"op": "start", "fan": fan, "characterised_before": analysed[fan], "distinct_pwm_values_written": len(distinct), "longest_run_of_rpm_reads": best}
                trace.append(obs)
                replay = {"case": case, "trace": trace}
                if analysed[fan] and (len(distinct) > 4 or best >= 3):
                    merged.add_violation("fan-analysed-again-on-restart:%s:%s" % (fan, cls), "start no. %d: %s; trace %s" % (k, json.dumps(obs), json.dumps(trace)), replay)
                    return
                if discarded[fan] and fan == "f1" and best < 3:
                    # the stored data is used "until the user discards it": after `fan reset` the RPM curve is measured anew
                    merged.add_violation("discarded-characterisation-still-used:%s:%s" % (fan, cls), "start no. %d after `fan reset`: no RPM-curve measurement: %s; trace %s" % (k, json.dumps(obs), json.dumps(trace)), replay)
                    return
                if discarded[fan] and fan == "ff" and not pwm_map and len(distinct) <= 7:
                    # ... and so is the PWM map of the file fan (whose characterisation is that map)
                    merged.add_violation("discarded-characterisation-still-used:%s:%s" % (fan, cls), "start no. %d after `fan reset`: no PWM sweep: %s; trace %s" % (k, json.dumps(obs), json.dumps(trace)), replay)
                    return
                discarded[fan] = False
                if pwm_map and len(distinct) > 3 + 4:
                    merged.add_violation("sweep-although-pwmMap-configured:%s" % fan, "start no. %d: %s" % (k, json.dumps(obs)), replay)
                    return
                if min_max and best >= 3 and fan == "f1":
                    merged.add_violation("init-not-skipped-with-min-max:hwmon", "process level, start no. %d: %s" % (k, json.dumps(obs)), replay)
                if analysed[fan]:
                    merged.nontrivial.add("l2|%s|%s|%s" % (fan, cls, ",".join(ops)))
                analysed[fan] = True
            if live_reset:
                analysed[live_reset], discarded[live_reset] = False, True
        finally:
            d.close()
    if not merged.samples:
        merged.samples.append({"kind": "process-level", "case": case, "trace": trace})


def c15(p, tier, work, t0, replay):
    src, vh = build_vh(work)
    q = tier == "quick"
    merged = vcheck.run_vh_batches(vh, p, tier, 8 if q else 16, work, 600 if q else 3000)
    binary = vbuild.build(work, src, ".", os.path.join(work, "fan2go"))
    run_l2(lambda i, r, m: c15_l2_scenario(binary, work, i, r, m), 11 if q else 120, merged, "process-level", 53)
    rule = ("two layers. In-process: seeded random sequences of start / reset / init (3..7 operations) against one real bbolt database for hwmon, file and cmd fans, with / without a "
            "configured pwmMap and minPwm+maxPwm; a start = new fan and controller objects + Run() until the first regulation cycle. Process level: the real daemon is started, "
            "stopped with SIGTERM and started again, with `fan2go fan --id <id> reset|init` in between (also while the daemon runs, and before its first start), on a hwmon and a file fan; "
            "after a reset the hwmon fan's RPM curve resp. the file fan's PWM map must be measured anew, and `fan init` of the file fan must sweep. Observed per start from the device event log: distinct "
            "PWM values written (a sweep writes 256) and the longest run of consecutive RPM reads (the settle loop of the RPM-curve measurement reads >= 10 in a row). non-trivial = "
            "sequence containing a start of an already characterised fan; distinct by (fan class, operation sequence)")
    return vcheck.finish(p, tier, "exploration", merged, rule,
                         TRUST_L1 + ["fixed waits of the controller divided by 50 in-process and by 10 for the daemon", "direct algorithm and constant temperature, so that regulation itself writes one value"], t0)


PROPS["C15"] = c15


# ---------------------------------------------------------------------------------------------
# C09 process level: I/O faults injected by the driver into the running real daemon

def c09_l2_scenario(binary, work, idx, rng, merged):
    sd = os.path.join(work, "c09-%d" % idx)
    os.makedirs(sd, exist_ok=True)
    orig_mode = rng.choice([0, 2, 2, 5])
    tree = l2.Tree(os.path.join(sd, "hwmon"))
    chip = tree.chip("chipa", fans=(1,), temps=(1,), orig_mode=orig_mode, orig_pwm=100, rpm=1200)
    l2.write(os.path.join(sd, "filefan"), "90\n")
    l2.write(os.path.join(sd, "filesensor"), "52000\n")
    sensor_kind = rng.choice(["hwmon", "file", "cmd"])
    curve_kind = rng.choice(["linear", "pid", "function"])
    if idx < 15:
        # every faulted component meets every curve kind in the first 15 scenarios, a faulted sensor is of each backend once
        curve_kind = ["linear", "pid", "function"][(idx // 5) % 3]
        if idx % 5 == 0:
            sensor_kind = ["hwmon", "cmd", "file"][(idx // 5) % 3]
    # a command sensor: its script obeys a mode file (healthy: prints the value file)
    l2.write(os.path.join(sd, "sensor.sh"), "#!/bin/sh\ncase \"$(cat %s/sensor.mode 2>/dev/null)\" in\nhang) sleep 5; cat %s/filesensor;;\nexit) echo oops >&2; exit 3;;\ngarbage) echo 1x2;;\nnan) echo NaN;;\n*) cat %s/filesensor;;\nesac\n" % (sd, sd, sd), 0o755)
    sensor_yaml = {"hwmon": "  - id: cpu\n    hwmon:\n      platform: chipa\n      index: 1\n", "file": "  - id: cpu\n    file:\n      path: %s/filesensor\n" % sd,
                   "cmd": "  - id: cpu\n    cmd:\n      exec: %s/sensor.sh\n" % sd}[sensor_kind]
    # Prometheus scrapes read every sensor and fan themselves: another place where a read fails
    scraped = sensor_kind == "cmd" or rng.random() < 0.4
    p_stat = l2.free_port() if scraped else None
    curves_yaml = {"linear": "  - id: cv\n    linear:\n      sensor: cpu\n      min: 30\n      max: 70\n",
                   "pid": "  - id: cv\n    pid:\n      sensor: cpu\n      setPoint: 50\n      p: -0.05\n      i: -0.005\n      d: -0.005\n",
                   "function": "  - id: l1\n    linear:\n      sensor: cpu\n      min: 30\n      max: 70\n  - id: p1\n    pid:\n      sensor: cpu\n      setPoint: 50\n      p: -0.05\n      i: -0.005\n      d: -0.005\n"
                               "  - id: cv\n    function:\n      type: maximum\n      curves:\n        - l1\n        - p1\n"}[curve_kind]
    cfg = """dbPath: {sd}/fan2go.db
fanResponseDelay: 0
tempSensorPollingRate: 10ms
rpmPollingRate: 10ms
controllerAdjustmentTickRate: 10ms
{stat}sensors:
{sensors}curves:
{curves}fans:
  - id: f1
    hwmon:
      platform: chipa
      rpmChannel: 1
    neverStop: false
    curve: cv
    controlAlgorithm: direct
  - id: ff
    file:
      path: {sd}/filefan
    curve: cv
    controlAlgorithm: direct
""".format(sd=sd, sensors=sensor_yaml, curves=curves_yaml, stat="statistics:\n  enabled: true\n  port: %d\n" % p_stat if scraped else "")
    comp_early = ["sensor", "rpm", "pwm-read", "pwm-write", "mode-write"][idx % 5] if idx < 15 else None
    # a third fan in some of the PWM-read scenarios: a cmd fan under the PID control algorithm whose read-back tool hangs
    # beyond its time limit for a while (one control cycle of that fan then takes seconds instead of milliseconds)
    tool_fault = comp_early == "pwm-read" or (idx >= 15 and idx % 4 == 3)
    if tool_fault:
        l2.write(os.path.join(sd, "fcpwm"), "60\n")
        l2.write(os.path.join(sd, "fcset.sh"), "#!/bin/sh\necho \"$1\" > %s/fcpwm.tmp && mv %s/fcpwm.tmp %s/fcpwm\n" % (sd, sd, sd), 0o755)
        l2.write(os.path.join(sd, "fcget.sh"), "#!/bin/sh\necho x >> %s/fcget.calls\nif [ \"$(cat %s/fcget.mode 2>/dev/null)\" = hang ]; then sleep 5; fi\ncat %s/fcpwm\n" % (sd, sd, sd), 0o755)
        cfg += ("  - id: fc\n    cmd:\n      setPwm:\n        exec: %s/fcset.sh\n        args: [\"%%pwm%%\"]\n      getPwm:\n        exec: %s/fcget.sh\n"
                "    curve: cv\n    controlAlgorithm: pid\n    pwmMap:\n" % (sd, sd)) + "".join("      %d: %d\n" % (v, v) for v in list(range(0, 255, 4)) + [255])
    pwm1, en1, rpm1 = os.path.join(chip, "pwm1"), os.path.join(chip, "pwm1_enable"), os.path.join(chip, "fan1_input")
    sens = os.path.join(chip, "temp1_input") if sensor_kind == "hwmon" else os.path.join(sd, "filesensor")
    comp = rng.choice(["sensor", "rpm", "pwm-read", "pwm-write", "mode-write"])
    if idx < 15:
        comp = ["sensor", "rpm", "pwm-read", "pwm-write", "mode-write"][idx % 5]
    path, op = {"sensor": (sens, "r"), "rpm": (rpm1, "r"), "pwm-read": (pwm1, "r"), "pwm-write": (pwm1, "w"), "mode-write": (en1, "w")}[comp]
    kind = rng.choice(["eio", "empty", "garbage"]) if op == "r" else rng.choice(["eio", "eacces"])
    cmd_fault = None
    if comp == "sensor" and sensor_kind == "cmd":
        # the command itself misbehaves (no device rule): hangs beyond its time limit, fails, prints garbage / NaN
        cmd_fault = kind = "hang" if idx < 15 else rng.choice(["hang", "hang", "exit", "garbage", "nan"])
    if tool_fault:
        comp, kind, cmd_fault = "pwm-read", "get-tool-hangs", None
        path, op = os.path.join(sd, "fcpwm"), "r"
    # a hwmon / file sensor whose file really holds something that is not a reading for a while - text that a lenient
    # number parser would take for a float ("nan", "inf") or plain garbage; placed by time like the command faults
    text_fault = None
    if comp == "sensor" and sensor_kind != "cmd" and (idx in (0, 10) or rng.random() < 0.4):
        text_fault = kind = {0: "nan-text", 10: "inf-text"}.get(idx) or rng.choice(["nan-text", "inf-text", "-inf-text", "garbage-text", "empty-text"])
    # the initial analysis performs ~700 operations on the fan's files; faults are placed well inside regulation
    start = {"sensor": [150, 400], "rpm": [150, 300], "pwm-read": [1200, 2000], "pwm-write": [262, 270, 300], "mode-write": [60, 200]}[comp]
    start = rng.choice(start)
    length = rng.choice([1, 10, 0])
    if idx < 15 and comp == "sensor":
        length = [1, 10, 0][(idx // 5) % 3]
    if text_fault and idx == 10:
        length = 10
    if tool_fault and idx < 15:
        length = [10, 1, 10][(idx // 5) % 3]
    rule = {"path": path, "op": op, "from": start}
    if length:
        rule["to"] = start + length - 1
    if kind in ("eio", "eacces"):
        rule.update(action="fail", errno=kind.upper())
    else:
        rule.update(action="content", raw="" if kind == "empty" else "1x2\n")
    rules = [rule, {"path": pwm1, "op": "w", "action": "quant", "val": 5}]
    if cmd_fault or text_fault or tool_fault:
        rules = rules[1:]
    case = {"scraped": scraped, "sensor": sensor_kind, "curve": curve_kind, "fault": {"component": comp, "kind": kind, "from_operation": start, "length": length or "for good"}, "orig_mode": orig_mode}
    cls = "sensor=%s:curve=%s:%s/%s/%s" % (sensor_kind, curve_kind, comp, kind, "permanent" if not length else "window")
    desktop = rng.choice(l2.DESKTOPS)
    case["desktop_session"] = desktop
    d = l2.Daemon(binary, sd, cfg, tree.root, driver={"rules": rules, "plants": []}, timescale=10, desktop=desktop)
    try:
        if not d.wait_for(r"(?s)(Starting controller loop.*){2}", 120):
            if d.p.poll() is None:
                merged.inconclusive.append("C09 L2 scenario %d: regulation did not begin: %s" % (idx, d.output()[-400:].replace("\n", " | ")))
                return
        # let the fault window pass (operation counts, not time, place it; this only gives it room); the temperature
        # moves so that regulation keeps writing new PWM values
        load = None
        if scraped:
            load = l2.HttpLoad(["http://127.0.0.1:%d/metrics" % p_stat], threads=2)
            load.start()
        t_end = time.time() + 8.0
        k = 0
        cmd_hit = False
        while time.time() < t_end and d.p.poll() is None:
            time.sleep(0.05)
            k += 1
            if text_fault and k >= 10 and (not length or k < 10 + (6 if length == 1 else 60)):
                l2.write_atomic(sens, {"nan-text": "nan\n", "inf-text": "inf\n", "-inf-text": "-Inf\n", "garbage-text": "4x5\n", "empty-text": ""}[text_fault])
                cmd_hit = True
                continue
            l2.write_atomic(sens, "%d\n" % (40000 + (k * 1700) % 30000))
            if text_fault:
                continue
            if tool_fault:
                if k == 10:
                    l2.write_atomic(os.path.join(sd, "fcget.mode"), "hang\n")
                    cmd_hit = True
                if length and k == 10 + (6 if length == 1 else 60):
                    l2.write_atomic(os.path.join(sd, "fcget.mode"), "ok\n")
                continue
            if cmd_fault:
                # placed by time: begins 0.5 s into regulation, lasts 0.3 s / 3 s (longer than the command time limit) / for good
                if k == 10:
                    l2.write_atomic(os.path.join(sd, "sensor.mode"), cmd_fault + "\n")
                    cmd_hit = True
                if length and k == 10 + (6 if length == 1 else 60):
                    l2.write_atomic(os.path.join(sd, "sensor.mode"), "ok\n")
                continue
            ev = d.events()
            n_path = sum(1 for e in ev if e["path"] == path and e["op"] == op)
            if n_path > start + max(length, 1) + 150:
                break
        alive = d.p.poll() is None
        follows, ff_seen = None, -1
        if alive and length and tool_fault:
            # the cmd fan under the PID algorithm: the temperature goes to the far end of the curve (target 0 resp. 255) and
            # the fan has to move at least 40 towards it within 600 calls of its read-back tool (about 200 control cycles)
            l2.write_atomic(os.path.join(sd, "fcget.mode"), "ok\n")
            time.sleep(2.5)  # (a call that is hanging right now ends at the tool's time limit)
            fc0 = l2.read_int(os.path.join(sd, "fcpwm"), -1)
            up = fc0 <= 128
            l2.write_atomic(sens, "95000\n" if up else "20000\n")

            def calls():
                try:
                    return os.path.getsize(os.path.join(sd, "fcget.calls")) // 2
                except OSError:
                    return 0
            n0 = calls()
            t_lim = time.time() + 90
            cycles = 0
            while time.time() < t_lim and d.p.poll() is None:
                time.sleep(0.1)
                ff_seen = l2.read_int(os.path.join(sd, "fcpwm"), -1)
                if (up and ff_seen >= fc0 + 40) or (not up and 0 <= ff_seen <= fc0 - 40):
                    follows = True
                    break
                cycles = calls() - n0
                if cycles >= 600:
                    follows = False
                    break
            if d.p.poll() is not None:
                follows = None
            elif follows is None:
                merged.inconclusive.append("C09 L2 scenario %d: fewer than 600 calls of the cmd fan's read-back tool in 90 s after the fault window (%d)" % (idx, cycles))
            elif follows:
                merged.counters["l2_cmd_fan_follows_the_temperature_after_its_tool_hung"] = merged.counters.get("l2_cmd_fan_follows_the_temperature_after_its_tool_hung", 0) + 1
            else:
                ff_seen = "%s (cmd fan under the PID algorithm, at %s when the temperature went to %s degrees)" % (ff_seen, fc0, 95 if up else 20)
            alive = d.p.poll() is None
        elif alive and length:
            # "keeps regulating with the last good data": once the fault window is over the fans follow the temperature
            # again. The sensor goes to 95 degrees (every curve kind then asks for full speed); the file fan (limits 0..255,
            # same sensor and curve) has to arrive at 255 within 400 of its own control cycles (counted from its reads of the
            # PWM file; the temperature average needs some tens of polls) - or the daemon has given up and handed it back
            ffp = os.path.join(sd, "filefan")
            if cmd_fault:
                l2.write_atomic(os.path.join(sd, "sensor.mode"), "ok\n")
            l2.write_atomic(sens, "95000\n")
            n0 = sum(1 for e in d.events() if e["path"] == ffp and e["op"] == "r")
            t_lim = time.time() + 60
            cycles = 0
            while time.time() < t_lim and d.p.poll() is None:
                time.sleep(0.1)
                if l2.read_int(ffp, -1) >= 250:
                    follows = True
                    break
                cycles = sum(1 for e in d.events() if e["path"] == ffp and e["op"] == "r") - n0
                if cycles >= 400:
                    ff_seen = l2.read_int(ffp, -1)
                    follows = ff_seen >= 250
                    break
            if d.p.poll() is not None:
                follows = None
            elif follows is None:
                merged.inconclusive.append("C09 L2 scenario %d: fewer than 400 control cycles of the file fan in 60 s after the fault window (%d)" % (idx, cycles))
            elif follows:
                merged.counters["l2_fans_follow_the_temperature_after_the_fault_window"] = merged.counters.get("l2_fans_follow_the_temperature_after_the_fault_window", 0) + 1
            alive = d.p.poll() is None
        if load:
            counts, errs = load.finish()
            merged.counters["l2_metrics_scrapes_during_faults"] = merged.counters.get("l2_metrics_scrapes_during_faults", 0) + sum(counts.values())
        if alive:
            d.signal(_signal.SIGTERM)
        rc = d.wait(90)
        out = d.output()
        merged.evaluations += 1
        replay = {"case": case, "output_tail": out[-2500:]}
        if rc is None:
            blk = d.locked_for_minutes()
            if blk:
                merged.add_violation("daemon-deadlocked-after-io-fault:" + cls, "still running 90 s after SIGTERM, fans not handed back (hwmon fan mode %s pwm %s); a goroutine has been waiting for a lock for minutes:\n%s\n%s" % (l2.read_int(en1, -1), l2.read_int(pwm1, -1), blk, json.dumps(case)), replay)
            else:
                merged.inconclusive.append("C09 L2 scenario %d: daemon did not exit (%s)" % (idx, cls))
            return
        if follows is False:
            merged.add_violation("regulation-does-not-follow-the-temperature-after-the-fault-window:" + cls,
                                 "sensor at the far end of the curve for more than 400 control cycles of the fan after the fault window, the daemon kept running, the fan stayed at PWM %s; %s" % (ff_seen, json.dumps(case)), replay)
            return
        pm = l2.has_panic(out)
        if pm:
            merged.add_violation("daemon-crashes-on-io-fault:" + cls, "%s\n%s" % (json.dumps(case), out[out.find(pm):][:1800]), replay)
            return
        events = d.events()
        hit = cmd_hit or any(e.get("action") in ("fail", "content") and e["path"] == path for e in events)
        # final state (regulation has ended one way or the other)
        final_pwm, final_mode = l2.read_int(pwm1, -1), l2.read_int(en1, -1)
        ok = (final_mode == orig_mode and orig_mode != 1) or final_pwm == 255
        if not ok:
            wr = [e for e in events if e["path"] == pwm1 and e["op"] == "w"]
            if wr and wr[-1]["val"] == 255 and wr[-1].get("err"):
                ok = True
        if not ok:
            merged.add_violation("fan-not-restored-after-io-fault:" + cls, "hwmon fan: mode %s (original %s), pwm %s; daemon %s; %s" % (final_mode, orig_mode, final_pwm, "kept running until SIGTERM" if alive else "stopped on its own (exit %s)" % rc, json.dumps(case)), replay)
        if l2.read_int(os.path.join(sd, "filefan"), -1) != 255:
            merged.add_violation("file-fan-not-at-full-speed-after-shutdown:" + cls, json.dumps(case), replay)
        if hit:
            merged.nontrivial.add("l2|" + cls + "|%d" % start)
            merged.counters["l2_daemon_" + ("kept_regulating" if alive else "stopped_and_restored")] = merged.counters.get("l2_daemon_" + ("kept_regulating" if alive else "stopped_and_restored"), 0) + 1
        else:
            merged.counters["l2_fault_point_not_reached"] = merged.counters.get("l2_fault_point_not_reached", 0) + 1
        if not merged.samples:
            merged.samples.append({"kind": "process-level", "case": case, "daemon_kept_running": alive, "exit": rc, "fault_hit": hit})
    finally:
        d.close()


def c09(p, tier, work, t0, replay):
    src, vh = build_vh(work)
    q = tier == "quick"
    merged = vcheck.run_vh_batches(vh, p, tier, 40 if q else 64, work, 400 if q else 3400, workers=40)  # the cases mostly sleep
    binary = vbuild.build(work, src, ".", os.path.join(work, "fan2go"))
    run_l2(lambda i, r, m: c09_l2_scenario(binary, work, i, r, m), 16 if q else 300, merged, "process-level", 71)
    rule = ("two layers. In-process: real controller.Run + sensor monitor on a closed loop; single faults = component {sensor read, RPM read, PWM read, PWM write, mode write} x kind "
            "{EIO, EACCES, empty, garbage; cmd: exit 1, garbage} x first hit at operation {1, 2, 12} on that path x duration {1, 6, for good}, for fan backend {hwmon, file, cmd} x sensor "
            "backend {hwmon, file, cmd} x curve {linear, PID, function(linear, PID), function(function)} (seeded sample of 420 in quick, all in thorough) plus seeded random pairs. "
            "Process level: the real daemon (hwmon + file fan, in the PWM-read scenarios also a cmd fan under the PID algorithm) with one fault inside regulation: a driver fault placed by "
            "operation count, a misbehaving sensor command (hang / exit / garbage / NaN), non-numeric text (nan, inf, garbage, nothing) in the real sensor file, or a read-back tool that "
            "hangs beyond its time limit. Oracle: process alive / no Go panic trace; after a fault window the temperature goes to the far end of the curve and the fans must follow "
            "within 400 control cycles (counted from the event log resp. the tool's call log; fewer cycles = inconclusive) unless the daemon has given up; at the end the fans satisfy the "
            "C03 final-state predicate. non-trivial = every injected fault point was reached; distinct by (combination, faults)")
    return vcheck.finish(p, tier, "fault_enumeration", merged, rule,
                         TRUST_L1 + ["one child process per batch; its death is attributed to the case logged before it ran", "fixed waits of the controller divided by 50 in-process, 10 for the daemon",
                                     "faults are injected into control cycles only, not into the initial analysis (the statement says 'at any control cycle')"], t0)


PROPS["C09"] = c09
