"""Per-property check drivers."""
import json
import os
import shutil
import subprocess
import time

import vbuild
import vcheck

PROPS = {}

TRUST_L1 = [
    "harness drives the real fan2go packages in-process (scratch copy of the current tree, -tags verif)",
    "virtual sysfs driver behind util.ReadIntFromFile/WriteIntToFile/WriteIntToFileAtomic models hwmon files",
    "virtual clock replaces time.Now in util/pid.go only",
]


def build_vh(work, race=False):
    src = vbuild.prepare(work)
    out = os.path.join(work, "vh-race" if race else "vh")
    vbuild.build(work, src, "./internal/verif/vh", out, race=race)
    return src, out


def simple(prop, level, rule, assumptions, batches=(8, 16), timeout=(600, 3000), min_nontrivial=2, exhaustive=None):
    def run(p, tier, work, t0, replay):
        _src, vh = build_vh(work)
        nb = batches[0] if tier == "quick" else batches[1]
        to = timeout[0] if tier == "quick" else timeout[1]
        if replay:
            case = os.path.join(work, "replay-case.json")
            with open(replay) as f:
                doc = json.load(f)
            with open(case, "w") as f:
                json.dump(doc.get("case", doc), f)
            merged = vcheck.run_vh_batches(vh, p, tier, 1, work, to, extra_args=["--replay", case])
            merged.nontrivial.update(["replay-a", "replay-b"])
        else:
            merged = vcheck.run_vh_batches(vh, p, tier, nb, work, to)
        ex = None
        if exhaustive is not None:
            ex = exhaustive(tier)
        return vcheck.finish(p, tier, level, merged, rule, assumptions, t0, min_nontrivial=min_nontrivial, exhaustive=ex)
    PROPS[prop] = run


simple("C01", "exploration",
       "seeded random closed-loop histories (fan kind x limits x PWM map x control algorithm x curve trajectory incl. out-of-range values, "
       "dt incl. 0, stall episodes); a history is non-trivial when the algorithm output had to be clamped (curve outside 0..255), a stall "
       "raise happened, or a PID cycle ran with dt=0; distinct = distinct (fan kind, algorithm, map kind, limit source, trigger, plant, trajectory hash)",
       TRUST_L1 + ["PWM maps have outputs in 0..255 (as the statement requires)"])

simple("C02", "exploration",
       "seeded random histories of never-stop fans with constant-curve phases and stall episodes (plant reports 0 RPM below a threshold that jumps above the "
       "operating point); non-trivial = at least one minimum raise observed; distinct by (fan kind, limit source, algorithm, map, window, #raises, trajectory hash)",
       TRUST_L1 + ["the raised minimum is initial GetMinPwm() + exported MinPwmOffset statistic"])

simple("C12", "exploration",
       "exhaustive: every non-empty key subset of the universe ({0,1,2,64,127,128,254,255} quick; 12 keys thorough) x every partition into runs of equal outputs, "
       "each with all requests -50..305 through the real setPwm; plus seeded random full-size / non-monotonic / constant / single-entry maps and direct helper calls; "
       "non-trivial = map with >= 2 supported inputs; distinct by map content hash",
       TRUST_L1 + ["fan without PWM read-back, so that no write is skipped"],
       exhaustive=lambda tier: True)


simple("C18", "exploration",
       "exhaustive grid: owner {root, 1000} x group {root, 1000} x all 512 permission modes x {direct path, symlink owned by a non-root user} through "
       "util.SafeCmdExecution (4096 files), a reduced mode grid through CmdSensor and the three CmdFan commands, ownership/mode flips between consecutive "
       "executions in both directions, and the configuration-file rule over uid x gid x modes x {no cmd entry, cmd sensor, cmd fan}; each file is a script "
       "appending to a marker file, so execution is observed from outside; every case is distinct and non-trivial (it decides permit/refuse)",
       ["runs as root (needed to construct ownership cases)", "check-to-exec TOCTOU window is not claimed by the statement"],
       batches=(8, 8), exhaustive=lambda tier: True)

simple("C19", "fault_enumeration",
       "failure-mode enumeration (exit != 0 with/without output, killed by signal, not executable, bad exec format, missing interpreter, file removed/re-created "
       "concurrently, sleeping beyond the deadline directly / as child / ignoring SIGTERM, grandchild holding stdout, empty / non-numeric / 50 MB output) x timeouts "
       "{0.2, 1} s quick, {0.2, 0.5, 1, 2} s thorough through util.SafeCmdExecution, plus the CmdSensor and CmdFan wrappers (2 s); distinct = (mode, entry point, timeout)",
       ["wall-clock oracle with grey zone: elapsed <= timeout+1.0 s passes, >= timeout+2.5 s is a violation (offending scripts overrun by 4 s), in between is retried and then inconclusive",
        "at most 4 commands in flight per batch"],
       batches=(4, 4), timeout=(900, 3000))


simple("C06", "exploration",
       "seeded random curves evaluated through the real curve objects over scripted sensors: linear min/max and step curves at boundary temperatures (+-0.5/1 m-degree, "
       "+-1 degree), +-0, +-1e-300, +-1e300, +-MaxFloat64/4 and random values against a float64 reference (|v - lerp| < 1 resp. <= 0.5+1e-3); function trees (6 types, 1..8 members, "
       "depth <= 4, shared stateless leaves) checked compositionally at every node in exact integers; PID curves against an independent model of the loop on a virtual clock "
       "(dt 1 ms..1 h); non-trivial: linear curve hit all three regions / step curve with >= 2 steps / function tree / PID trajectory with an unsaturated output; distinct by content hash",
       TRUST_L1 + ["PID cases whose pre-truncation value is within 1e-9 of an integer are skipped and counted", "dt > 0 (dt = 0 is exercised under C01)"])

simple("C07", "exploration",
       "seeded random monotone configurations: linear min/max, step sets with non-decreasing speeds, sum/max/min/average trees (depth <= 3) over such members sharing or not sharing "
       "sensors (all sensors rising together, or one rising with the others fixed); the temperature is swept upward on a grid of 1 m-degree near every boundary (+-200 m-degree) and "
       "100 m-degree elsewhere and the output must never decrease; controller part: curve value 0..255 -> (request, device PWM) with the direct algorithm over random limits and "
       "non-decreasing PWM maps; non-trivial = the output rose at least once during the sweep; distinct by configuration hash",
       TRUST_L1)


simple("C13", "exploration",
       "real HwMonFan objects: exhaustive curves on up to 3 (quick) / 4 (thorough) of the keys {0,1,63,128,254,255} with RPM in {0, 0.4, 1, 500, 500.9, 2000} cycling through the "
       "8 combinations of configured min/start/max and neverStop; plus seeded random cases (single point, all-zero, plateaus with sub-RPM jitter, non-monotonic, full-size, sparse) "
       "with attach sequences of length 1..4 incl. nil and empty data; reference computed from the data; non-trivial = at least one accepted attachment; distinct by case hash",
       TRUST_L1 + ["keys whose RPM lies in (0,1) may count as zero or non-zero for the start PWM (the statement does not say)",
                   "for all-zero data and for an unconfigured minimum only range/stability/configured-values-kept are required"],
       batches=(8, 16))


simple("C05", "exploration",
       "systematic: one interference (mode in {none,0,2,3} x pwm in {none, 0..255 step 8 quick / step 1 thorough}) placed at cycle index {1,2,7,40} quick / 1..40 thorough for identity, "
       "sparse README and idempotent quantiser maps, random curve trajectory and algorithm; plus seeded random 120-cycle histories with several interferences incl. interference in the "
       "middle of a cycle (n-th file operation); oracle after the next complete cycle: manual mode, device PWM = map[nearest(request)], counter +1 iff the intruder left a different "
       "PWM, +0 otherwise; non-trivial = history whose interference was actually applied; distinct by scenario hash",
       TRUST_L1 + ["device reads back what was written (identity device, or idempotent nearest-level quantiser with the matching PWM map)",
                   "counter exactness is only required for interference while the controller is quiescent (between cycles)"])


simple("C04", "exploration",
       "per fan range (8 fixed boundary ranges + seeded random ones; 12 quick / 400 thorough) and a maxPwmChangePerCycle m from {1,2,3,10,50,254,255,random}: the steady map S(c) of the "
       "plain direct algorithm is observed for all 256 curve values (S(0)=min, S(255)=max, non-decreasing); then fresh controllers are started from device PWM x (13 boundary/random starts "
       "quick, all 256 thorough) at constant curve c (all / every 5th resp. 3rd value) and run for ceil(255/m)+5 cycles: settled within ceil(255/m)+1 at S(c), |delta| <= m, monotone; "
       "default PID with ticks {50,200,1000,2000} ms in virtual time from random starts and after adversarial histories (1-24 h idling at curve 0/255, alternating extremes, random walk, "
       "steps): |request - S(c)| <= 1 in every cycle of [1200, 1500]; non-trivial = configuration/run that completed all clauses; distinct by (range, m) resp. (range, tick, c, history class, start)",
       TRUST_L1 + ["liveness restated as bounded progress: N = 1200 cycles for the default PID (3x the worst settling observed on the unchanged algorithm), ceil(255/m)+1 for rate limits",
                   "fan without RPM sensor, so that the stall logic does not interfere"],
       batches=(12, 16), timeout=(900, 3400))


simple("C10", "exploration",
       "seeded random stall scenarios: never-stop hwmon (configured / measured limits), file, cmd and model fans x window n in {1,2,3,5,10,20,50} x prior RPM average in "
       "{0,1,300,1500,10000} x plant threshold in {min+1, mid, max, never spins} x poll:cycle ratio {1:1, 5:1, 1:5} x {direct, rate-limited}; logical steps only. Oracle: every raise "
       "comes within B(n)=25n+25 polls of the first 0 reading / the previous raise while the fan reports 0 RPM; at the maximum the cycle ends with ErrFanStalledAtMaxPwm and not before; "
       "non-trivial = scenario in which the fan really stalled and was raised until it span or was reported stalled at max; distinct by (fan, window, threshold, prior, ratio, algorithm, #raises, outcome)",
       TRUST_L1 + ["liveness restated as bounded progress in RPM polls: B(n) = 25*n + 25"],
       batches=(8, 16))


simple("C08", "fault_enumeration",
       "the real sensor-monitor step on real hwmon / file sensors (virtual driver: content, ENOENT, EIO, EACCES, empty, non-numeric) and cmd sensors (scripts: exit 1, garbage, "
       "empty, nan, inf, -Infinity, time-out): exhaustive placement of every fault kind in all sequences up to length 4 (hwmon/file) / 3 (cmd) quick, 6 / 4 thorough, plus seeded random "
       "60-poll sequences with window sizes 1..100 and readings up to +-2^50 (files) / +-1e300 (cmd); oracle per poll: hull, geometric convergence on repeated readings, bit-identical "
       "average after a failed / non-finite read; non-trivial = sequence with at least one fault and one good reading; distinct by sequence hash",
       TRUST_L1 + ["tolerance tau = 4 ulp of the largest magnitude seen (floating point may step one ulp outside the hull)", "readings restricted to |x| <= 1e300 so that x - avg cannot overflow"],
       batches=(8, 16))


simple("C11", "exploration",
       "seeded random YAML texts taken through viper -> LoadConfig -> Validate: one third assembled only from documented forms (all fan / sensor / curve kinds, both spellings of "
       "controlAlgorithm, step lists, nested function curves) which must be accepted; two thirds hostile (curve cycles of length 1..8, dangling references, function curves "
       "without members, unknown function type, steps as list / map / [] / {} / null / singleton, duplicate and empty ids, 0 or 2 backends, controlAlgorithm {} / direct {} / "
       "direct null / zero PID / maxPwmChangePerCycle <= 0, deprecated controlLoop, hwmon index/channel combinations). Every accepted text is checked against a reference "
       "(unique ids, one backend, resolvable references, acyclic graph) and instantiated by the daemon's own InitializeObjects / initializeFanControllers on file, cmd and "
       "fake-hwmon devices, all curves evaluated under 5 sensor states, two control cycles per fan; one child process per batch with the case logged before it runs "
       "(stack overflow / fatal errors are attributed to it); non-trivial = accepted text that was instantiated, or rejected hostile text; distinct by text hash resp. feature class",
       TRUST_L1 + ["ids carry a per-case prefix because fan2go's registries are process-global", "prometheus.DefaultRegisterer is replaced per case"],
       batches=(16, 64), timeout=(900, 3000))


simple("C03", "fault_enumeration",
       "in-process layer: controller.Run on hwmon/file devices in the virtual driver; regulation stopped when the n-th device I/O operation is issued (n random in 1..400 resp. 1..1500 "
       "with initial analysis, and densely in 1..12) or after a delay falling into the start-up wait / first-second delay / ticking, or never (fan stalls at maximum = fatal control error); "
       "x original mode {0,1,2,5} x original PWM {0,77,255} x with/without control mode x restore faults {mode write refused / silently ignored / sticks to 1, PWM write refused}; "
       "oracle on the device state after Run returned; non-trivial = stop point reached; distinct by (class, stop point)",
       TRUST_L1 + ["fixed waits of the controller divided by 50 (tick rates 3-4 ms)"], batches=(16, 32))


simple("C09", "fault_enumeration",
       "in-process layer: real controller.Run + sensor monitor on a closed loop; single faults = component {sensor read, RPM read, PWM read, PWM write, mode write} x kind {EIO, EACCES, "
       "empty, garbage; cmd: exit 1, garbage} x first hit at operation {1, 2, 12} on that path x duration {1, 6, for good}, for fan backend {hwmon, file, cmd} x sensor backend {hwmon, "
       "file, cmd} x curve {linear, PID, function(linear, PID), function(function)} (seeded sample of 420 in quick, all in thorough), plus seeded random pairs of faults; oracle: process "
       "alive, and after the window either the curve keeps being evaluated or the fan satisfies the C03 final-state predicate; non-trivial = every injected fault point was reached; "
       "distinct by (combination, faults)",
       TRUST_L1 + ["one child process per batch; its death is attributed to the case logged before it ran", "fixed waits of the controller divided by 50 (tick rates 3-4 ms)"],
       batches=(16, 48), timeout=(400, 3400))


simple("C16", "exploration",
       "seeded random scenarios of 2..4 real controllers (hwmon fans on quantising virtual devices with 3/4/6/9 levels = different analysis lengths) starting after random delays "
       "(0..150 ms, fixed waits divided by 50), through RunInitializationSequence() or Run(); every device event has a global sequence number; analysis interval = [first write to "
       "the fan, call storing its RPM curve]; with runFanInitializationInParallel false no two intervals may overlap (logical order); positive control: the same workload with the "
       "option true must show an overlap; non-trivial = scenario whose positive control overlapped; distinct by (fans, entry point, levels, delays)",
       TRUST_L1 + ["fixed waits of the controller divided by 50"], batches=(8, 16), timeout=(600, 3000))


simple("C15", "exploration",
       "in-process layer: seeded random sequences of start / reset / init (3..7 operations, first and last a start) against one real bbolt database for hwmon, file and cmd fans, with / "
       "without a configured pwmMap, with / without configured minPwm+maxPwm; a start = new fan and controller objects + Run() until the first regulation cycle; observed before that "
       "cycle: distinct PWM values written (a sweep writes 256) and RPM reads (only the RPM-curve measurement reads RPM then); non-trivial = sequence containing a start with stored data; "
       "distinct by (fan class, operation sequence)",
       TRUST_L1 + ["fixed waits of the controller divided by 50", "a start is emulated by fresh objects in the same process; the process-level layer restarts the real daemon"],
       batches=(8, 16), timeout=(600, 3000))


simple("C17", "exploration",
       "in-process layer: seeded random fake hwmon trees (1..4 chips with distinct names, fan inputs on random channel subsets of 1..6, temperature inputs on random indices incl. "
       "features without an input file, pwm controls on all channels, random enumeration ORDER) read by the real hwmon.GetChips() through the gosensors stand-in; per tree 12 fan "
       "selectors (platform x index | rpmChannel x optional pwmChannel, incl. unknown platform and non-existing index/channel) through UpdateFanConfigFromHwMonControllers and 6 "
       "sensor selectors through the daemon's InitializeObjects; bound paths compared with a reference resolution; non-trivial = selector of an existing device; distinct by (selector, tree shape, order)",
       TRUST_L1 + ["the stand-in numbers features like libsensors (by type, then number; names fanN / tempN)", "platform patterns match exactly one chip"],
       batches=(8, 16))


def c14(p, tier, work, t0, replay):
    _src, vh = build_vh(work)
    q = tier == "quick"
    merged = vcheck.run_vh_batches(vh, p, tier, 8 if q else 16, work, 900 if q else 3000)
    vcheck.run_vh_batches(vh, p, tier, 4 if q else 12, work, 900 if q else 3000, merged=merged, mode="crash")
    vcheck.run_vh_batches(vh, p, tier, 4 if q else 8, work, 900 if q else 3000, merged=merged, mode="lin")
    rule = ("three monitors on the real persistence package (real bbolt file): (1) seeded random sequential histories of save/load/delete/reopen/corrupt-inject over 1..5 fan ids x "
            "both kinds with arbitrary maps, all keys re-loaded and compared with an in-memory model after every step; (2) crash points: a worker process executing a logged "
            "script is killed by strace-injected SIGKILL at every k-th pwrite64 / fdatasync / ftruncate it performs and at random times, a fresh process dumps the database, the "
            "in-flight entry must be old or new and every other entry its last acknowledged value; (3) concurrent goroutine and process clients (some killed mid-call, their open "
            "calls kept open to the end) checked for linearizability with porcupine, partitioned by key; non-trivial: history with saves and deletes / kill that landed inside an "
            "operation (distinct crash point) / distinct observed interleaving")
    return vcheck.finish(p, tier, "fault_enumeration", merged, rule,
                         ["process kill leaves the page cache intact: power loss / torn sectors are not covered", "strace when=k counts per thread; the worker locks its OS thread",
                          "porcupine v1.3.0, 60 s checker timeout (timeout = inconclusive)"], t0)


PROPS["C14"] = c14


def setup():
    """Warm the Go build cache: build the harness (plain and -race) and the daemon once."""
    t0 = time.time()
    work = vbuild.mkworkdir("setup")
    try:
        src, vh = build_vh(work)
        vbuild.build(work, src, ".", os.path.join(work, "fan2go"))
        vbuild.build(work, src, ".", os.path.join(work, "fan2go-race"), race=True)
        vbuild.build(work, src, "./internal/verif/vh", os.path.join(work, "vh-race"), race=True)
        print("setup ok in %.1fs" % (time.time() - t0))
        return 0
    except vbuild.Inconclusive as e:
        print("setup failed: %s" % e)
        return 2
    finally:
        shutil.rmtree(work, ignore_errors=True)
