"""Process-level layer: run the real fan2go binary (verif build) as a daemon on a fake hwmon
tree with file / cmd devices, real signals, real bbolt file, real HTTP."""
import json
import os
import re
import signal
import socket
import subprocess
import threading
import time


def free_port():
    s = socket.socket()
    s.bind(("127.0.0.1", 0))
    p = s.getsockname()[1]
    s.close()
    return p


def write(path, text, mode=None):
    os.makedirs(os.path.dirname(path), exist_ok=True)
    with open(path, "w") as f:
        f.write(text)
    if mode is not None:
        os.chmod(path, mode)


def write_atomic(path, text):
    tmp = path + ".tmp%d" % threading.get_ident()
    with open(tmp, "w") as f:
        f.write(text)
    os.replace(tmp, path)


def read_int(path, default=None):
    try:
        with open(path) as f:
            return int(f.read().strip())
    except (OSError, ValueError):
        return default


class Tree:
    """A fake /sys/class/hwmon."""

    def __init__(self, root):
        self.root = root
        self.chips = []
        os.makedirs(root, exist_ok=True)

    def chip(self, name, fans=(), temps=(), pwm_only=(), orig_mode=2, orig_pwm=120, rpm=1200, temp=45000, enable=True):
        d = os.path.join(self.root, "hwmon%d" % len(self.chips))
        os.makedirs(d, exist_ok=True)
        write(os.path.join(d, "name"), name + "\n")
        for ch in list(fans) + list(pwm_only):
            write(os.path.join(d, "pwm%d" % ch), "%d\n" % orig_pwm)
            if enable:
                write(os.path.join(d, "pwm%d_enable" % ch), "%d\n" % orig_mode)
        for ch in fans:
            write(os.path.join(d, "fan%d_input" % ch), "%d\n" % rpm)
        for ix in temps:
            write(os.path.join(d, "temp%d_input" % ix), "%d\n" % temp)
        self.chips.append(d)
        return d

    def order(self, names):
        write(os.path.join(self.root, "ORDER"), "\n".join(names) + "\n")


DESKTOPS = ["no-DISPLAY", "nobody-on-the-display", "user-on-the-display", "user-on-the-display-notify-send-fails", "who-fails", "who-prints-nothing", "DISPLAY-empty-who-prints-nothing"]


def desktop_env(work, variant, path):
    """The desktop-session situations fan2go's error notifications meet (ui.NotifySend: DISPLAY, `who`, `id -u`,
    `sudo -u <user> ... notify-send`); fake commands first in PATH."""
    if variant == "no-DISPLAY":
        return {}
    b = os.path.join(work, "fakebin")
    os.makedirs(b, exist_ok=True)

    def script(name, body):
        write(os.path.join(b, name), "#!/bin/sh\n" + body + "\n", 0o755)
    if variant == "nobody-on-the-display":
        script("who", "echo 'alice    pts/0        2026-10-03 10:05 (192.168.1.7)'")
    elif variant.startswith("user-on-the-display"):
        script("who", "echo 'alice    pts/0        2026-10-03 10:05 (192.168.1.7)'; echo 'bob      :0           2026-10-03 09:00 (:0)'")
        script("id", "echo 1000")
        script("sudo", "exit 0" if variant == "user-on-the-display" else "echo 'cannot connect to the session bus' >&2; exit 1")
    elif variant == "who-fails":
        script("who", "exit 1")
    elif variant == "who-prints-nothing":
        script("who", "true")
    elif variant == "DISPLAY-empty-who-prints-nothing":
        script("who", "true")
        return {"DISPLAY": "", "PATH": b + ":" + path}
    return {"DISPLAY": ":0", "PATH": b + ":" + path}


class Daemon:
    def __init__(self, binary, work, config_text, tree_root, driver=None, timescale=20, gorace=None, args=None, name="daemon", desktop=None, cfg_dir=None):
        self.work = work
        # (the configuration file may live in another directory than the one the daemon is started from)
        self.cfg = os.path.join(cfg_dir or work, name + ".yaml")
        write(self.cfg, config_text)
        os.chmod(self.cfg, 0o644)
        self.out = os.path.join(work, name + ".out")
        env = dict(os.environ)
        env.pop("DISPLAY", None)
        env["FAN2GO_VERIF_HWMON_ROOT"] = tree_root
        env["FAN2GO_VERIF_TIMESCALE"] = str(timescale)
        env["HOME"] = work
        env["FAN2GO_VERIF_SCRATCH_DIR"] = work
        if desktop:
            env.update(desktop_env(work, desktop, env.get("PATH", "")))
        self.evlog = None
        if driver is not None:
            self.evlog = os.path.join(work, name + ".events")
            driver = dict(driver)
            driver["log"] = self.evlog
            dpath = os.path.join(work, name + ".driver.json")
            write(dpath, json.dumps(driver))
            env["FAN2GO_VERIF_DRIVER"] = dpath
        if gorace:
            env["GORACE"] = gorace
        self.t0 = time.time()
        self.f = open(self.out, "w")
        self.p = subprocess.Popen([binary, "-c", self.cfg, "--no-style"] + (args or []), stdout=self.f, stderr=subprocess.STDOUT, env=env, cwd=work)

    def output(self):
        try:
            with open(self.out, errors="replace") as f:
                return f.read()
        except OSError:
            return ""

    def wait_for(self, pattern, timeout):
        rx = re.compile(pattern)
        end = time.time() + timeout
        while time.time() < end:
            if rx.search(self.output()):
                return True
            if self.p.poll() is not None:
                return bool(rx.search(self.output()))
            time.sleep(0.01)
        return False

    def events(self):
        out = []
        if not self.evlog:
            return out
        try:
            with open(self.evlog) as f:
                for line in f:
                    try:
                        out.append(json.loads(line))
                    except ValueError:
                        pass
        except OSError:
            pass
        return out

    def signal(self, sig=signal.SIGTERM):
        try:
            self.p.send_signal(sig)
        except ProcessLookupError:
            pass

    def wait(self, timeout):
        try:
            rc = self.p.wait(timeout=timeout)
        except subprocess.TimeoutExpired:
            return None
        finally:
            pass
        return rc

    def locked_for_minutes(self):
        """For a daemon that is still running long after it was told to stop: SIGQUIT makes the Go runtime print every
        goroutine with the time it has been waiting. Returns the dump block of a goroutine that has been waiting for a
        mutex for minutes inside fan2go code (a deadlock: nothing in fan2go holds a lock across a sleep or a command),
        or '' when there is none (slow, not stuck)."""
        before = len(self.output())
        self.signal(signal.SIGQUIT)
        self.wait(30)
        dump = self.output()[before:]
        for blk in dump.split("\n\n"):
            lines = blk.split("\n")
            head = lines[0]
            if " minutes]" not in head:
                continue
            body = blk.replace("/internal/verif/", "/VERIF/")
            if "sync.Mutex.Lock" in head or "sync.RWMutex" in head or "semacquire" in head:
                if "markusressel/fan2go/internal/" in body:
                    return blk[:1800]
            elif ("chan receive" in head or "chan send" in head) and len(lines) > 1:
                # a bare channel operation written in fan2go itself (the first frame; not a library's wait such as
                # run.Group.Run, exec.Cmd.Wait or net/http) that has not completed for minutes - although the daemon was
                # told to stop at least 90 s ago, which cancels every context fan2go waits on
                first = lines[1].replace("/internal/verif/", "/VERIF/")
                if first.startswith("github.com/markusressel/fan2go/internal/") or first.startswith("github.com/markusressel/fan2go/cmd/"):
                    return blk[:1800]
        return ""

    def kill(self):
        try:
            self.p.kill()
            self.p.wait(timeout=10)
        except Exception:
            pass
        self.f.close()

    def close(self):
        if self.p.poll() is None:
            self.kill()
        else:
            self.f.close()


PANIC_RX = re.compile(r"^(panic: .*|fatal error: .*|goroutine \d+ \[running\]:)", re.M)


def has_panic(text, allow_startup_fatal=False):
    """Returns the line announcing a Go panic / runtime abort, or None. With allow_startup_fatal, fan2go's own
    deliberate fatal exit (ui.Fatal -> pterm prints the message, then panics with an empty value on the main
    goroutine, before any fan was touched) is not counted: it is the daemon's way of refusing to start."""
    m = PANIC_RX.search(text)
    if not m:
        return None
    if allow_startup_fatal and re.search(r"^panic: \s*$", text, re.M) and "pterm.checkFatal" in text and "internal.RunDaemon()" in text and "oklog/run" not in text.split("panic:")[1][:3000]:
        return None
    return m.group(1)


class HttpLoad:
    """N client threads hammering a list of URLs until stopped; counts per path."""

    def __init__(self, urls, threads=8):
        self.urls = urls
        self.stop = threading.Event()
        self.counts = {}
        self.errors = 0
        self.lock = threading.Lock()
        self.threads = [threading.Thread(target=self._run, args=(i,), daemon=True) for i in range(threads)]

    def start(self):
        for t in self.threads:
            t.start()

    def _run(self, i):
        import http.client
        import urllib.parse
        conns = {}
        k = i
        while not self.stop.is_set():
            url = self.urls[k % len(self.urls)]
            k += 1
            u = urllib.parse.urlparse(url)
            key = u.netloc
            try:
                c = conns.get(key)
                if c is None:
                    c = http.client.HTTPConnection(u.hostname, u.port, timeout=5)
                    conns[key] = c
                c.request("GET", u.path)
                r = c.getresponse()
                r.read()
                with self.lock:
                    self.counts[u.path] = self.counts.get(u.path, 0) + 1
            except Exception:
                with self.lock:
                    self.errors += 1
                try:
                    conns.pop(key).close()
                except Exception:
                    pass
                time.sleep(0.01)

    def finish(self):
        self.stop.set()
        for t in self.threads:
            t.join(timeout=10)
        return dict(self.counts), self.errors


def parse_race_logs(prefix_dir, prefix_name):
    """Returns a list of report dicts {'pair': (a, b), 'text': ...} from GORACE log files."""
    reports = []
    for fn in sorted(os.listdir(prefix_dir)):
        if not fn.startswith(prefix_name):
            continue
        with open(os.path.join(prefix_dir, fn), errors="replace") as f:
            text = f.read()
        for block in re.split(r"={18}\n", text):
            if "WARNING: DATA RACE" not in block:
                continue
            reports.append({"pair": race_pair(block), "text": block})
    return reports


FRAME_RX = re.compile(r"^  (\S+)\(.*\)?$")


# shared helpers whose own frame does not say which object is raced on: the caller is part of the identity
HELPER_FRAMES = (r"internal/util\.\(\*PidLoop\)\.Loop$",)


# daemon activities other than the control loops: when a shared helper is reached from one of them, that is part of the
# identity as well (a PID loop advanced by a metrics scrape is not the PID loop shared by two control loops)
FOREIGN_ENTRIES = (r"^internal/statistics\.", r"^internal/api\.")


def foreign_entry(section):
    """Outermost fan2go frame of the access stack if it belongs to the metrics collectors or the REST API, else None."""
    last = None
    for line in section.splitlines():
        if line.startswith("Goroutine ") or line.startswith("Previous "):
            if last is not None:
                break
            continue
        m = re.match(r"^  ([^\s(]+(?:\([^)]*\))?[^\s(]*)\(", line)
        if not m:
            if last is not None and not line.strip():
                break  # end of the access stack (the goroutine creation stack follows)
            continue
        fn = m.group(1)
        if "github.com/markusressel/fan2go/" in fn and "/internal/verif/" not in fn:
            fn = fn.replace("github.com/markusressel/fan2go/", "")
            last = re.sub(r"\.func\d+(\.\d+)*$", ".func", fn)
    if last is not None and any(re.search(rx, last) for rx in FOREIGN_ENTRIES):
        return last
    return None


def innermost_repo_frame(section):
    """First frame (innermost first) whose function lives in fan2go itself; for a shared helper (util.PidLoop.Loop) the
    calling fan2go frame is appended ("helper<caller"), so that a PID loop raced on through a curve and one raced on
    through a control algorithm are different pairs."""
    found = None
    for line in section.splitlines():
        m = re.match(r"^  ([^\s(]+(?:\([^)]*\))?[^\s(]*)\(", line)
        if not m:
            continue
        fn = m.group(1)
        if "github.com/markusressel/fan2go/" in fn and "/internal/verif/" not in fn:
            fn = fn.replace("github.com/markusressel/fan2go/", "")
            fn = re.sub(r"\.func\d+(\.\d+)*$", ".func", fn)
            if found is not None:
                entry = foreign_entry(section)
                return found + "<" + fn + ("@" + entry if entry and entry != fn else "")
            if any(re.search(h, fn) for h in HELPER_FRAMES):
                found = fn
                continue
            return fn
    return found or "?"


def cut_stack(frame):
    """True for a shared helper's frame that came without its caller: the race detector had kept only the innermost
    frame of that (previous) access, so the report cannot say on whose behalf the helper ran."""
    return any(re.search(h, frame) for h in HELPER_FRAMES)


def race_pair(block):
    # a report has two access sections ("Read at/Write at ... by goroutine" and "Previous read/write at ...")
    parts = re.split(r"\n(?=Previous (?:read|write) at |Goroutine \d+ \()", block)
    first = parts[0]
    second = ""
    for p in parts[1:]:
        if p.startswith("Previous"):
            second = p
            break
    a, b = innermost_repo_frame(first), innermost_repo_frame(second)
    return tuple(sorted((a, b)))
